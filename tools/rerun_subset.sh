#!/bin/bash
cd /verif
out=regression/rerun.txt
: > $out
run_seeded() { n=$1; id=${n%%-*}; k=${n##*-}; d=seeded/$n/
  chk=$(python3 -c "import json;print(json.load(open('$d/meta.json')).get('detected_by',{}).get('check','$id'))")
  tools/curate_seeded.sh $id $k $d $chk 2>&1 | grep -v "^cp:" | cut -c1-300 >> $out; }
for n in C17-16 C17-17 C17-18 C20-16 C20-17 C20-18 C14-16 C14-17 C14-18 C06-16 C06-18 C08-16 C08-17 C08-18 C09-16 C09-17 C09-18 C01-16 C01-17 C01-18 C06-17 C18-16 C18-17 C18-18; do run_seeded $n; done
echo ROUND6-DONE >> $out
for d in benign/*/; do n=$(basename $d); id=${n%%-*}; k=${n##*-b}; tools/run_benign.sh $id $k $d 2>&1 | cut -c1-300 >> $out; done
echo BENIGN-DONE >> $out
for n in C01-8 C01-11 C01-15 C06-8 C06-13 C08-2 C08-4 C08-5 C17-12 C17-14 C09-13 C09-14 C08-12 C18-10 C18-11 C18-13 C18-6 C18-2 C18-14 C18-15 C18-4 C18-7 C18-9; do run_seeded $n; done
echo DONE >> $out
