#!/usr/bin/env python3
"""One-off: harvest yaql expressions from the repository's own tests
(self.eval('...', data=<literal>)) into corpus/test_expressions.json.  The
checks read the committed file, never /repo/yaql/tests at run time."""
import ast
import glob
import json
import os
import sys

root = sys.argv[1] if len(sys.argv) > 1 else '/repo'
out = []
seen = set()
for fn in sorted(glob.glob(os.path.join(root, 'yaql/tests/test_*.py'))):
    legacy = 'legacy' in os.path.basename(fn)
    tree = ast.parse(open(fn).read())
    for node in ast.walk(tree):
        if not isinstance(node, ast.Call):
            continue
        f = node.func
        if not (isinstance(f, ast.Attribute) and f.attr in ('eval', 'legacy_eval', 'eval_new_engine')):
            continue
        if not node.args or not isinstance(node.args[0], ast.Constant) or \
                not isinstance(node.args[0].value, str):
            continue
        expr = node.args[0].value
        data = None
        has_data = False
        ok = True
        for kw in node.keywords:
            if kw.arg == 'data':
                try:
                    data = ast.literal_eval(kw.value)
                    has_data = True
                except Exception:
                    pass
        if len(node.args) > 1:
            try:
                data = ast.literal_eval(node.args[1])
                has_data = True
            except Exception:
                pass
        if not ok:
            continue
        try:
            json.dumps(data)
        except Exception:
            continue
        key = (expr, json.dumps(data, sort_keys=True), legacy)
        if key in seen:
            continue
        seen.add(key)
        out.append({'expr': expr, 'data': data, 'has_data': has_data,
                    'legacy': legacy, 'file': os.path.basename(fn)})
json.dump(out, open(os.path.join(os.path.dirname(os.path.dirname(os.path.abspath(__file__))), 'corpus', 'test_expressions.json'), 'w'), indent=0, sort_keys=True)
print(len(out), 'expressions,', sum(1 for e in out if e['has_data']), 'with literal data')
