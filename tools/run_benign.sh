#!/bin/bash
# usage: tools/run_benign.sh <ID> <k> <srcdir>  - a behaviour-preserving change
# must NOT raise an alarm: suite green + quick check exit 0.
id=$1; k=$2; src=$3
cd "$(dirname "$0")/.."
tmp=$(mktemp -d /tmp/yaql-ben.XXXXXX)
trap 'rm -rf "$tmp"' EXIT
cp -r /repo/yaql "$tmp/yaql"
find "$tmp" -name __pycache__ -type d -prune -exec rm -rf {} +
if ! patch -s -p1 -d "$tmp" < "$src/patch.diff"; then echo "$id-b$k PATCH-FAILED"; exit 3; fi
tests=$(cd "$tmp" && PYTHONPATH="$tmp" timeout 900 /venv/bin/python -m pytest -q -p no:cacheprovider yaql/tests 2>&1 | tail -1)
out=$(VERIF_REPO="$tmp" timeout 1500 bin/check $id --tier quick --no-shrink 2>&1)
rc=$?
echo "$id-b$k tests=[$tests] rc=$rc :: $(echo "$out" | grep -E '^(violation|HARNESS)' | head -2 | cut -c1-300) $(echo "$out" | tail -1)"
