#!/bin/bash
# usage: tools/selftest_determinism.sh <ID> [runs]
# Same root seed, three executions: 16 workers, 4 workers (fresh interpreters),
# and another pinned PYTHONHASHSEED.  The digest covers every counter and
# every distinct-set (which include the hashes of the executed schedules,
# histories and outcomes), so equal digests = equal event logs.
id=$1; runs=${2:-1500}
cd "$(dirname "$0")/.."
a=$(VERIF_WORKERS=16 bin/check $id --tier quick --runs $runs --digest | grep -E '^(DIGEST|VIOLATION|HARNESS)')
b=$(VERIF_WORKERS=4 bin/check $id --tier quick --runs $runs --digest | grep -E '^(DIGEST|VIOLATION|HARNESS)')
c=$(VERIF_WORKERS=16 VERIF_HASHSEED=12345 bin/check $id --tier quick --runs $runs --digest | grep -E '^(DIGEST|VIOLATION|HARNESS)')
echo "16 workers : $a"; echo "4 workers  : $b"; echo "hashseed 2 : $c"
if [ "$a" = "$b" ] && ! echo "$a$c" | grep -q -E 'VIOLATION|HARNESS'; then echo "DETERMINISM-OK $id"; else echo "DETERMINISM-FAIL $id"; exit 1; fi
