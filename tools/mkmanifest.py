#!/usr/bin/env python3
"""Regenerates /verif/MANIFEST.json (kept as code so that it stays valid)."""
import json
import os
import subprocess

HERE = os.path.dirname(os.path.dirname(os.path.abspath(__file__)))

NA = {
 'C02': 'The parse tree is a pure function of (text, operator table): no schedule, clock, fault or history in the statement; enumeration / property-based testing decides it, simulation adds nothing (its stateful neighbour, engine reuse, is C01).',
 'C03': 'Totality of the parser over input strings; termination and exception type depend on the input alone - a fuzzing/grammar-enumeration target, nothing to schedule or fault.',
 'C04': 'Agreement of evaluation with a reference interpreter over programs x documents is differential testing of a pure function; no interleaving, fault or history in the statement.',
 'C05': 'Which overload the documented rules select is a pure function of (overload sets per layer, call); the only nondeterministic ingredient, enumeration order, is split out as C06 and claimed there.',
 'C07': 'Containment is a negative statement over all programs and yaqlization settings of a deterministic computation; no schedule or fault to search.',
 'C10': 'Round trip and finalisation are pure functions of (value, option combination); configuration enumeration plus value generation decides it.',
 'C11': 'Evaluation order and laziness are a deterministic function of the program; needs program generation, not schedules or faults.',
 'C12': 'Equivalence of calling conventions is a pure relation over (signature, argument tuple, spelling).',
 'C13': 'Collection/query functions against a reference model over inputs: model-based testing of pure functions (their consumption behaviour is C14, their behaviour under limits C08 - both claimed).',
 'C15': 'Scalar operator algebra over pairs/triples of values: pure.',
 'C16': 'Literal decoding is a pure function of the literal text.',
 'C19': 'String/regex functions against a model: pure functions of their input.',
}

CHECKS = {
 'C01': dict(
   category='exploration', design_ref='DESIGN.md 3.1',
   text='Seeded search over schedules: 1-3 simulated host threads parse text lists on one shared engine (4 factory configurations, engine.copy() and yaql.eval() paths) under a baton scheduler that can pre-empt before every token fetch or at every Python line of ply/yaql; all interleavings of sampled short text pairs are enumerated, the rest sampled; single-thread histories include parses after failed parses and direct use of engine.lexer; one run in twelve uses a cold engine (deep copy of a pristine prototype) so that first-use races inside the engine are reachable. Every outcome is compared with the same text parsed on a fresh engine built for it alone. A clean batch is evidence, not proof.',
   note='Trusted: the baton scheduler (real threads, one runs at a time), ply itself, the fresh-engine reference. Pre-emption only at token fetches / Python line boundaries of ply+yaql frames.',
   technique='deterministic simulation: seeded baton scheduler over real threads at token-fetch / line granularity, fresh-engine oracle, schedule shrinking + replay',
   quick_timeout=900, thorough_timeout=21600),
 'C06': dict(
   category='fault_enumeration', design_ref='DESIGN.md 3.2',
   text='The enumeration order of identity-hashed overload sets is the injected nondeterminism. For seeded overload families over a subtype lattice (biased to >=2-3 simultaneously matching candidates, the shapes named in the property) and for every multi-overload name of the real default/legacy chains, each call is resolved under ALL permutations of the family (<=720; sampled above), under registration orders with simulator-assigned identity hashes, and through Context/MultiContext/LinkedContext; the outcome (payload tag or exception class) must be identical. Exhaustive per family in the permutation space, sampled in the family space.',
   note='Trusted: ContextBase.collect_functions is the only funnel between contexts and choose_overload (S-order seam sits there); natural set order is a function of FunctionDefinition.__hash__ (S-hash seam) and insertion order.',
   technique='deterministic simulation with fault enumeration: simulator-owned enumeration order / identity hash of overload sets, all permutations per seeded family, metamorphic same-outcome oracle, shrinking + replay',
   quick_timeout=900, thorough_timeout=21600),
 'C17': dict(
   category='exploration', design_ref='DESIGN.md 3.6',
   text='Seeded operation histories (set, delete, child, multi, linked, register, exclusive register, delete_function, plus operations that legitimately fail: deleting missing variables through fan-out contexts, invalid methods, child creation on linked contexts over non-plain contexts) over forests of <=12 contexts mixing the three classes; after EVERY operation all contexts x {$, $1, empty, a, $a, b} x {f, g, f_, h, nosuch} are probed (ctx[name], get_data with default / own layer only, in, keys, collect_functions and get_functions plain, kind-filtered and with the naming convention, spec in ctx) and compared with a flattened-layers reference model written from the statement. Sampling, not proof.',
   note='Trusted: the ~80-line reference model (layers = merge for multi, concatenation for linked; writes go to the first plain context of the own layer). Two narrow relaxations (partial delete through fan-out contexts; exclusivity after delete_function) adopt observed state for exactly the touched name.',
   technique='deterministic simulation of host operation histories with injected failing operations, step-by-step comparison against an executable flattened-layers reference model, history shrinking + replay',
   quick_timeout=900, thorough_timeout=21600),
 'C20': dict(
   category='exploration', design_ref='DESIGN.md 3.8',
   text='Narrow claim: the simulated part is the process environment the date/time code could consult. Every clause of the statement (timestamp round trips, utc, (d+t)-t, (d+t)-d, =, !=, <, <=, >, >=, unit properties, timespan(microseconds) round trip, naive host datetimes as UTC) is evaluated as a short history whose steps run under simulated local zones (TZ/tzset: fixed offsets to +-23:59, DST rules with transitions placed on the generated dates), changed between steps, and checked (a) against an integer-microsecond instant model and (b) for identical results under every zone assignment. The suite only runs under UTC, where naive-as-UTC and naive-as-local are indistinguishable. Sampling over years 1..9999 (incl. the range edges, where the library may refuse but not lie), offsets at minute resolution, signed timespans, default and legacy context, host zones with varying offset for the two round-trip identities.',
   note='Trusted: Python integer arithmetic for the instant model, glibc parsing of POSIX TZ strings. now()/localtz() are environment functions by design and are not evaluated. Thread-dependent date/time state is covered by C18, not here.',
   technique='deterministic simulation of the process time-zone environment (seeded zone changes between history steps) with an instant-arithmetic reference model and a zone-independence metamorphic oracle, shrinking + replay',
   quick_timeout=900, thorough_timeout=21600),
 'C14': dict(
   category='exploration', design_ref='DESIGN.md 3.5',
   text='Seeded pipelines of <=4 of the listed streaming operators (plus first/any/all/indexOf/indexWhere terminals and join outer side) over an instrumented endless source (and a second one for zip/concat), (also handed out by a yaqlized host object or as a re-iterable), consumed by a simulated client that takes k in 0..6 results and cancels (next()*k + close, .take(k) with finalisation, or a scalar terminal), with and without yaql.limitIterators, data passed as $ or as a context variable. Faults: no EOF, a read error armed 1 or 3 positions beyond the demand, pull / lambda budgets that turn materialisation or a stall into a finite replayable event. Oracle: pulls per source <= demand of an executable lazy reference model + 1, applications per lambda <= model + 1, armed read error never surfaces. On the unchanged tree the model matches exactly (0 value mismatches in 37k cases).',
   note='Trusted: the lazy reference model (one Python generator per operator). Value mismatches give no verdict (C13). Loops that neither pull nor apply a lambda are only bounded by a wall guard and reported as HARNESS-ERROR, never as exit 0.',
   technique='deterministic simulation with fault injection on host streams (endless / failing / budgeted SimSource, cancelling client), lazy executable reference model as consumption oracle, pipeline shrinking + replay',
   quick_timeout=900, thorough_timeout=21600),
 'C08': dict(
   category='fault_enumeration', design_ref='DESIGN.md 3.3',
   text='Fault enumeration over the introspected registry: every visible parameter of every function of the default and legacy chains whose declared type accepts an iterator/sequence/set/mapping (187 + 212 positions, decided by the type check itself, so new functions are covered automatically) is fed in turn by endless / boundary-length (N-1, N, N+1) instrumented sources, sized collections at the boundary and library-made endless generators (itertools proxied to budgeted sources), for N in {0,1,2,3,7,10,100}, with consumer/nesting wrappers (toList, len, first, where(false).first, [x], {a=>x}, {x=>1} as a key, [[x]], select([$, [$,$]])), conversion on/off; a second target list feeds the stream as the RESULT of every Lambda-typed parameter (producer/selector), boolean options enumerated. Monitors: pulls per source <= N+1, termination inside logical budgets (50(N+1) pulls, 4M call events), no collection > N at any depth of a result. Quota family: growth chains (+, *, join, replace, accumulate, toDict, groupBy, distinct, memorize, format) incl. non-ASCII strings, over-quota host values and literals, Q placed just above the operands: no measured argument seen by any payload and no returned value exceeds Q; huge repetitions must refuse with a tracemalloc peak < 5 MB. Contexts composed with a previously used bare context, unresolvable calls on the lazy sequence, endless streams of empty iterators and a nested-quota family (oversized members inside small host containers) are part of the mix. Every position is visited each quick run; other choices are seeded.',
   note='Trusted: payload shims measuring sys.getsizeof of arguments, SimSource pull counters, sys.settrace call-event counter as logical clock, RLIMIT_AS 6 GB per worker. CPython cannot make a single allocation fail, so memory is monitored, not faulted.',
   technique='deterministic simulation with fault enumeration: instrumented endless/oversize/boundary streams injected at every introspected collection parameter, logical step budgets instead of a watchdog, payload-argument size monitors, tracemalloc, shrinking + replay (with process-history prelude)',
   quick_timeout=900, thorough_timeout=21600),
 'C09': dict(
   category='exploration', design_ref='DESIGN.md 3.4',
   text='Seeded host histories: 2-6 statements (introspective calls of every library function on mutable sub-collections of the document in every collection-typed position; let/with/unpack/def/-> and host functions writing through yaql_interface / context; 744 expressions harvested from the test suite), 1-3 generated mutable documents (incl. a collections.defaultdict and dicts with non-keyword keys), <=12 evaluations mixing input conversion on/off, output conversion on/off and target context = fresh child / host layer itself / persistent child / none, on create_context chains and on a hand-built chain without finalizer, through Statement.evaluate, engine(text, options), YaqlInterface and yaql.eval; the host may change its own document in place between evaluations and every fourth evaluation is repeated on an equal deep copy; odd-numbered histories abort evaluations at arbitrary points (host stream failing at position p, probe function raising on its n-th call, iterator limit or quota tripping part-way, lazy result abandoned after j items). After EVERY operation: documents deeply equal their snapshots; all contexts of the host chain have the same variables, function sets and exclusive names except $ of the context given to evaluate; converted results alias no host container (identity walk, then mutate-in-place and re-check); the same (statement, document, mode) gives the result of its first fault-free occurrence, also after aborted evaluations.',
   note='Trusted: snapshot code reading Context._data/_functions/_exclusive_funcs; aliasing only asserted for converted results; random() seeded, now()/localtz() excluded. Cross-run state (caches) is replayed through the process-history prelude.',
   technique='deterministic simulation of a host evaluation history with injected aborts (failing stream, raising host function, limit/quota trip, abandoned lazy result), deep-snapshot invariants after every step, history-independence oracle, shrinking + replay',
   quick_timeout=900, thorough_timeout=21600),
 'C18': dict(
   category='exploration', design_ref='DESIGN.md 3.7',
   text='Seeded search over schedules at line granularity: 2-4 simulated host threads evaluate 1-3 (statement, document) pairs each, on one engine, each in its own child of one shared prepared context (one flavour goes through yaql.eval and its module-level caches). Statements: ~90 hand-written pipelines building stateful lazies (orderBy/thenBy, groupBy aggregators, memorize, join, def/let chains, regex, datetimes with offsets), the C09 statements, 740 harvested test expressions, introspective library calls; same or different statements per thread, equal or per-thread documents. The baton scheduler pre-empts between any two Python lines of yaql frames and at stream pulls, under three policies: random quanta (mean 3..3000 lines), PCT-style d switch points sized from the measured sequential run, and write-point targeting (switch right after a statically detected store into an attribute/subscript/global or a mutator call, sites weighted by rarity). Oracle: every result equals the run-alone result computed before the threads start; shared context chain snapshot unchanged. One run in four uses a cold context chain (fresh create_context(), oracle from a warm twin) so that first-use / lazy-initialisation races are reachable; the shared context also holds yaqlized host objects (fresh for the concurrent phase). Every run-alone baseline and every concurrent phase runs in its own forked copy of the worker (nothing one evaluation leaves in a cache can reach another baseline; replays do not depend on earlier runs). A third of the runs are focused short traces (two threads, one statement family) over which single-switch schedules are swept systematically: right after rarely executed stores / global accesses / function entries (novelty first) or at seeded positions. Mismatches are confirmed by re-running the recorded schedule.',
   note='Trusted: baton scheduler and sys.settrace delivery; canonical overload-set order via simulator-assigned FunctionDefinition hashes; cyclic GC disabled inside a run; pre-emption only between Python lines of yaql frames (dependencies run atomically).',
   technique='deterministic simulation: seeded baton scheduler over real threads with sys.settrace line-level pre-emption (random / PCT / write-point policies), run-alone oracle + shared-context snapshot, schedule shrinking + replay',
   quick_timeout=1200, thorough_timeout=21600),
}


def main():
    checks = []
    for pid, c in sorted(CHECKS.items()):
        checks.append({
            'property_id': pid,
            'quick_cmd': 'timeout %d bin/check %s --tier quick' % (c['quick_timeout'], pid),
            'thorough_cmd': 'timeout %d bin/check %s --tier thorough' % (c['thorough_timeout'], pid),
            'evidence_file': 'evidence/%s.json' % pid,
            'replay_cmd_template': 'bin/check %s --replay {path}' % pid,
            'engine': 'yaql-sim',
            'level_claimed': {'category': c['category'], 'text': c['text'],
                              'design_ref': c['design_ref']},
            'level_note': c['note'],
            'technique': c['technique'],
        })
    m = {
        'version': 1,
        'setup_cmd': 'bin/setup',
        'hooks': {
            'guard': 'YAQL_VERIF',
            'enable': 'no hook exists in /repo: every seam is installed by monkeypatching from /verif/sim at run time (YAQL_VERIF is reserved and unused); checks import yaql from the working tree named by VERIF_REPO (default /repo)',
            'baseline_off_cmd': 'cd /repo && /venv/bin/python -m pytest -ra -q -p no:cacheprovider --timeout=900 --continue-on-collection-errors',
            'source_commits': [],
            'add_only': True,
        },
        'engines': [{
            'name': 'yaql-sim', 'path': 'sim/',
            'serves_properties': sorted(CHECKS),
            'kind_free_text': 'hand-written deterministic simulator: SHA-256 derived per-run seeds, baton scheduler over real threads (sys.settrace / token seam), instrumented streams, overload-order seam, zone/clock seam, greedy shrinker, JSON replay files',
        }],
        'checks': checks,
        'notes': 'Exit codes: 0 held (KNOWN-FINDING lines possible), 1 VIOLATION, 2 HARNESS-ERROR (never a verdict). Genuine defects repaired in /repo as fix: commits are listed in known_findings.json. See DESIGN.md.',
        'not_applicable': [{'property_id': k, 'reason': v} for k, v in sorted(NA.items())],
    }
    with open(os.path.join(HERE, 'MANIFEST.json'), 'w') as f:
        json.dump(m, f, indent=1)
        f.write('\n')
    code = ("import json, jsonschema; "
            "jsonschema.validate(json.load(open('%s/MANIFEST.json')), "
            "json.load(open('/root/.vp/MANIFEST.schema.json'))); print('MANIFEST valid')" % HERE)
    subprocess.run(['python3-vt', '-c', code], check=True)


if __name__ == '__main__':
    main()
