#!/bin/bash
# Re-runs every seeded change (must be reported: exit 1) and every
# behaviour-preserving change (must not be: exit 0) against the current
# checks; writes regression/summary.txt.  Takes hours.
cd "$(dirname "$0")/.."
mkdir -p regression
out=regression/summary.txt
: > $out
for d in seeded/*/; do
  n=$(basename $d); id=${n%%-*}; k=${n##*-}
  chk=$(python3 -c "import json;print(json.load(open('$d/meta.json')).get('detected_by',{}).get('check','$id'))")
  tools/curate_seeded.sh $id $k $d $chk 2>&1 | grep -v "^cp:" | cut -c1-300 >> $out
done
for d in benign/*/; do
  n=$(basename $d); id=${n%%-*}; k=${n##*-b}
  tools/run_benign.sh $id $k $d 2>&1 | cut -c1-300 >> $out
done
echo DONE >> $out
