#!/bin/bash
# usage: tools/curate_seeded.sh <ID> <k> <srcdir> [check-id]
# Confirms a candidate seeded change in a scratch copy of /repo's working tree
# (suite passes with it, demo fails with it and passes without it), runs the
# quick check against it, and files it under /verif/seeded/<ID>-<k>/.
id=$1; k=$2; src=$(realpath $3); chk=${4:-$id}
cd "$(dirname "$0")/.."
tmp=$(mktemp -d /tmp/yaql-seed.XXXXXX)
trap 'rm -rf "$tmp"' EXIT
cp -r /repo/yaql "$tmp/yaql"; cp /repo/setup.cfg /repo/setup.py "$tmp/" 2>/dev/null
find "$tmp" -name __pycache__ -type d -prune -exec rm -rf {} +
demo_clean=$(cd "$tmp" && YAQL_UNDER_TEST="$tmp" PYTHONPATH="$tmp" timeout 120 /venv/bin/python -W ignore "$src/demo.py" >/dev/null 2>&1; echo $?)
if ! patch -s -p1 -d "$tmp" < "$src/patch.diff"; then echo "$id-$k PATCH-FAILED"; exit 3; fi
tests=$(cd "$tmp" && PYTHONPATH="$tmp" timeout 900 /venv/bin/python -m pytest -q -p no:cacheprovider yaql/tests 2>&1 | tail -1)
demo_mut=$(cd "$tmp" && YAQL_UNDER_TEST="$tmp" PYTHONPATH="$tmp" timeout 120 /venv/bin/python -W ignore "$src/demo.py" >/dev/null 2>&1; echo $?)
out=$(VERIF_REPO="$tmp" timeout 1500 bin/check $chk --tier quick 2>&1)
rc=$?
viol=$(echo "$out" | grep -E "^violation key=" | head -3 | cut -c1-300)
summary=$(echo "$out" | tail -1)
echo "$id-$k demo_clean=$demo_clean demo_mut=$demo_mut tests=[$tests] check=$chk rc=$rc :: $summary"
dest=seeded/$id-$k; mkdir -p $dest
cp "$src/patch.diff" "$src/demo.py" $dest/
python3 - "$src/meta.json" "$dest/meta.json" "$id" "$chk" "$demo_clean" "$demo_mut" "$tests" "$rc" "$viol" "$summary" <<'PY'
import json, sys
src, dst, pid, chk, dc, dm, tests, rc, viol, summary = sys.argv[1:]
try:
    m = json.load(open(src))
except Exception:
    m = {}
m['property'] = pid
m['confirmed'] = {
  'base': 'current /repo working tree (scratch copy of yaql/, removed afterwards)',
  'suite_with_change': tests,
  'demo_exit_without_change': int(dc), 'demo_exit_with_change': int(dm),
  'ran': ['pytest -q -p no:cacheprovider yaql/tests (with change)', 'demo.py with and without the change', 'bin/check %s --tier quick with VERIF_REPO=<scratch copy>' % chk],
}
m['detected_by'] = {'check': chk, 'tier': 'quick', 'exit_code': int(rc), 'violations': viol.split('\n') if viol else [], 'summary': summary}
json.dump(m, open(dst, 'w'), indent=1)
PY
