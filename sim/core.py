"""Core of the yaql simulator: seeds, statistics, worker pool, replay files,
known findings, evidence.  Nothing in here draws from a PRNG or reads a clock
inside a run; wall time is measured once around the whole batch."""
import hashlib
import importlib
import json
import os
import random
import subprocess
import sys
import time
import traceback
import warnings

VERIF = os.path.dirname(os.path.dirname(os.path.abspath(__file__)))
PINNED_HASHSEED = '0'
NPROC = int(os.environ.get('VERIF_WORKERS', '16'))


class HarnessError(Exception):
    """Something is wrong with the machinery, not with yaql."""


class SimAbort(BaseException):
    """Unwinds a simulated task; BaseException so that library
    `except Exception` blocks cannot swallow it."""


class SimBudgetExceeded(SimAbort):
    """A logical step budget (pulls, line events) was exhausted."""


def repo_root():
    return os.path.realpath(os.environ.get('VERIF_REPO', '/repo'))


def import_yaql():
    root = repo_root()
    if sys.path[0] != root:
        sys.path.insert(0, root)
    warnings.filterwarnings('ignore')
    import yaql
    f = os.path.realpath(yaql.__file__)
    if not f.startswith(root + os.sep):
        raise HarnessError('yaql imported from %s, expected under %s'
                           % (f, root))
    return yaql


def h64(*parts):
    m = hashlib.sha256()
    for p in parts:
        m.update(str(p).encode('utf-8', 'backslashreplace'))
        m.update(b'\x00')
    return int.from_bytes(m.digest()[:8], 'big')


def run_seed(root, prop, tier, index):
    return h64('run', root, prop, tier, index)


class Seeds:
    """Independent sub-streams of one run seed."""

    def __init__(self, rs):
        self.run_seed = rs

    def stream(self, name):
        return random.Random(h64('stream', self.run_seed, name))

    def sub(self, name):
        return h64('sub', self.run_seed, name)


class Stats:
    """Mergeable counters / distinct sets (64-bit hashes) / samples."""

    def __init__(self):
        self.c = {}
        self.s = {}
        self.samples = {}

    def inc(self, key, n=1):
        self.c[key] = self.c.get(key, 0) + n

    def max(self, key, v):
        k = 'max:' + key
        if v > self.c.get(k, v - 1):
            self.c[k] = v

    def add(self, key, item):
        self.s.setdefault(key, set()).add(
            item if isinstance(item, int) else h64(item))

    def sample(self, key, obj, cap=3):
        lst = self.samples.setdefault(key, [])
        if len(lst) < cap:
            lst.append(obj)

    def merge(self, other):
        for k, v in other.c.items():
            if k.startswith('max:'):
                self.c[k] = max(self.c.get(k, v), v)
            else:
                self.c[k] = self.c.get(k, 0) + v
        for k, v in other.s.items():
            self.s.setdefault(k, set()).update(v)
        for k, v in other.samples.items():
            lst = self.samples.setdefault(k, [])
            for o in v:
                if len(lst) < 4:
                    lst.append(o)

    def n(self, key):
        return self.c.get(key, 0)

    def distinct(self, key):
        return len(self.s.get(key, ()))

    def counters(self, prefix=''):
        return {k[len(prefix):]: v for k, v in sorted(self.c.items())
                if k.startswith(prefix)}


def jdump(obj):
    return json.dumps(obj, sort_keys=True, default=repr)


# --------------------------------------------------------------------------
# worker side
# --------------------------------------------------------------------------

def _worker_chunk(modname, params, tier, root, indices, chunk_timeout):
    import faulthandler
    faulthandler.dump_traceback_later(chunk_timeout, exit=True)
    try:
        mod = importlib.import_module(modname)
        stats = Stats()
        viols = []
        errors = []
        import signal
        run_guard = params.get('run_wall_guard_s', 120)

        def on_alarm(signum, frame):
            raise HarnessError('run exceeded the %ds wall guard (hang that '
                               'no logical budget bounds)' % run_guard)
        signal.signal(signal.SIGALRM, on_alarm)
        for i in indices:
            rs = run_seed(root, mod.ID, tier, i)
            signal.alarm(run_guard)
            try:
                case = mod.gen_case(Seeds(rs), params, i)
                case.setdefault('property', mod.ID)
                case['run_index'] = i
                case['root_seed'] = root
                case['tier'] = tier
                vs = mod.execute(case, stats)
            except SimAbort:
                errors.append((i, 'SimAbort escaped:\n' +
                               traceback.format_exc()))
                continue
            except Exception:
                errors.append((i, traceback.format_exc() + '\ncase: ' +
                               jdump(locals().get('case'))[:1500]))
                signal.alarm(0)
                if len(errors) > 5:
                    break
                continue
            finally:
                signal.alarm(0)
            stats.inc('runs')
            if vs:
                stats.inc('runs_with_violation')
                if len(viols) < 40:
                    viols.append((i, case, vs[0]))
        return stats, viols, errors
    finally:
        faulthandler.cancel_dump_traceback_later()


def chunk_size(params):
    n = params['runs']
    return max(1, min(params.get('chunk', 200), (n + 15) // 16))


def _child_main(conn, modname, params, tier, root, indices, chunk_timeout):
    try:
        try:
            res = _worker_chunk(modname, params, tier, root, indices,
                                chunk_timeout)
        except BaseException:
            res = ('error', traceback.format_exc())
        conn.send(res)
        conn.close()
    finally:
        os._exit(0)


def run_batch(mod, params, tier, root):
    """Fan the run indices out over forked processes, ONE FRESH PROCESS PER
    CHUNK: the set of runs depends on (root, tier) only, and the in-process
    history of every run is exactly the runs of its chunk before it (which is
    what lets a violation that depends on state left behind by earlier runs
    be replayed, see exec_case / prelude)."""
    import multiprocessing
    import multiprocessing.connection as mpc
    n = params['runs']
    chunk = chunk_size(params)
    chunks = [list(range(a, min(n, a + chunk))) for a in range(0, n, chunk)]
    deadline = time.time() + params.get('timeout_s', 3600)
    ctimeout = params.get('chunk_timeout_s', 900)
    results = {}
    if NPROC == 1 or os.environ.get('VERIF_INPROC'):
        for ci, ch in enumerate(chunks):
            results[ci] = _worker_chunk(mod.__name__, params, tier, root, ch,
                                        ctimeout)
    else:
        ctx = multiprocessing.get_context('fork')
        pending = list(enumerate(chunks))
        pending.reverse()
        running = {}
        try:
            while pending or running:
                while pending and len(running) < NPROC:
                    ci, ch = pending.pop()
                    rd, wr = ctx.Pipe(duplex=False)
                    p = ctx.Process(target=_child_main, args=(
                        wr, mod.__name__, params, tier, root, ch, ctimeout))
                    p.daemon = True
                    p.start()
                    wr.close()
                    running[rd] = (ci, p)
                ready = mpc.wait(list(running), timeout=5)
                for rd in ready:
                    ci, p = running.pop(rd)
                    try:
                        res = rd.recv()
                    except (EOFError, OSError):
                        raise HarnessError('worker for chunk %d died (hang '
                                           'watchdog or crash)' % ci)
                    finally:
                        rd.close()
                    p.join(10)
                    if res and res[0] == 'error':
                        raise HarnessError('worker chunk %d failed:\n%s'
                                           % (ci, res[1]))
                    results[ci] = res
                if time.time() > deadline:
                    raise HarnessError('batch wall-clock guard (%ds) expired'
                                       % params.get('timeout_s', 3600))
        finally:
            for rd, (ci, p) in running.items():
                try:
                    p.kill()
                except Exception:
                    pass
    stats = Stats()
    viols = []
    errors = []
    for ci in sorted(results):          # merge in chunk order: deterministic
        s_, v, e = results[ci]
        stats.merge(s_)
        viols.extend(v)
        errors.extend(e)
    return stats, viols, errors


def isolated_exec(mod, case, timeout=180):
    """exec_case in a forked child, so that state a case leaves behind in
    the process (caches, poisoned pools) never leaks into the next candidate
    and the parent stays pristine.  Returns the list of violations, or None
    if the child failed."""
    import multiprocessing
    ctx = multiprocessing.get_context('fork')
    rd, wr = ctx.Pipe(duplex=False)

    def child():
        try:
            try:
                vs = exec_case(mod, case, Stats())
                wr.send(('ok', vs, case.get('schedule')))
            except BaseException:
                wr.send(('error', traceback.format_exc(), None))
            wr.close()
        finally:
            os._exit(0)
    p = ctx.Process(target=child)
    p.daemon = True
    p.start()
    wr.close()
    res = None
    if rd.poll(timeout):
        try:
            res = rd.recv()
        except (EOFError, OSError):
            res = None
    else:
        p.kill()
    rd.close()
    p.join(5)
    if not res or res[0] != 'ok':
        return None
    if res[2] is not None and 'schedule' not in case:
        case['schedule'] = res[2]
    return res[1]


def fork_call(fn, timeout=120):
    """fn() evaluated in a forked child (a copy of the current process
    state that the call cannot modify for the caller); the picklable result
    comes back through a pipe.  Plain os.fork: usable from daemonic worker
    processes too."""
    import pickle
    import select
    rd, wr = os.pipe()
    pid = os.fork()
    if pid == 0:
        try:
            os.close(rd)
            try:
                payload = pickle.dumps(('ok', fn()))
            except BaseException:
                payload = pickle.dumps(('error', traceback.format_exc()))
            with os.fdopen(wr, 'wb') as f:
                f.write(payload)
        finally:
            os._exit(0)
    os.close(wr)
    chunks = []
    deadline = time.time() + timeout
    try:
        while True:
            left = deadline - time.time()
            if left <= 0:
                break
            r, _, _ = select.select([rd], [], [], left)
            if not r:
                break
            b = os.read(rd, 1 << 20)
            if not b:
                break
            chunks.append(b)
    finally:
        os.close(rd)
        if time.time() >= deadline:
            try:
                os.kill(pid, 9)
            except OSError:
                pass
        try:
            os.waitpid(pid, 0)
        except OSError:
            pass
    try:
        res = pickle.loads(b''.join(chunks))
    except Exception:
        raise HarnessError('fork_call: child died or timed out')
    if res[0] != 'ok':
        raise HarnessError('fork_call: child failed:\n' + res[1])
    return res[1]


def fork_map(func, jobs, nproc=None, timeout=600):
    """[func(job) for job in jobs], every job in its OWN freshly forked
    process (so that global state one job leaves behind cannot reach the
    next), at most nproc at a time, results in job order."""
    import multiprocessing
    import multiprocessing.connection as mpc
    ctx = multiprocessing.get_context('fork')
    nproc = nproc or NPROC
    pending = list(enumerate(jobs))
    pending.reverse()
    running = {}
    results = {}
    deadline = time.time() + timeout

    def child(conn, job):
        try:
            try:
                conn.send(('ok', func(job)))
            except BaseException:
                conn.send(('error', traceback.format_exc()))
            conn.close()
        finally:
            os._exit(0)
    try:
        while pending or running:
            while pending and len(running) < nproc:
                i, job = pending.pop()
                rd, wr = ctx.Pipe(duplex=False)
                p = ctx.Process(target=child, args=(wr, job))
                p.daemon = True
                p.start()
                wr.close()
                running[rd] = (i, p)
            for rd in mpc.wait(list(running), timeout=5):
                i, p = running.pop(rd)
                try:
                    res = rd.recv()
                except (EOFError, OSError):
                    raise HarnessError('fork_map: job %d died' % i)
                finally:
                    rd.close()
                p.join(10)
                if res[0] != 'ok':
                    raise HarnessError('fork_map: job %d failed:\n%s'
                                       % (i, res[1]))
                results[i] = res[1]
            if time.time() > deadline:
                raise HarnessError('fork_map: timeout')
    finally:
        for rd, (i, p) in running.items():
            try:
                p.kill()
            except Exception:
                pass
    return [results[i] for i in range(len(jobs))]


def exec_case(mod, case, stats):
    """Execute a case; a `prelude` (earlier cases of the same process) is
    executed first so that state left behind by them is in place."""
    for pc in case.get('prelude', []):
        try:
            mod.execute(dict(pc), Stats())
        except (Exception, SimAbort):
            pass
    return mod.execute(case, stats)


# --------------------------------------------------------------------------
# known findings
# --------------------------------------------------------------------------

def load_known(prop):
    path = os.path.join(VERIF, 'known_findings.json')
    if not os.path.exists(path):
        return []
    data = json.load(open(path))
    return [e for e in data.get('findings', [])
            if e.get('property') == prop and e.get('status') == 'open']


# --------------------------------------------------------------------------
# shrinking
# --------------------------------------------------------------------------

def shrink(mod, case, viol, budget_s=90):
    """Greedy: ask the check for smaller candidates of the current case and
    keep the first one that still fails with the same violation key."""
    t0 = time.time()
    key = viol['key']
    cur, curv = case, viol
    tried = 0
    progress = True
    while progress and time.time() - t0 < budget_s:
        progress = False
        for cand in _all_candidates(mod, cur):
            if time.time() - t0 > budget_s:
                break
            for mk in ('property', 'run_index', 'root_seed', 'tier'):
                if mk in case:
                    cand.setdefault(mk, case[mk])
            if _core_of(cand) == _core_of(cur):
                continue
            tried += 1
            vs = isolated_exec(mod, cand)
            if vs is None:
                continue
            hit = [v for v in vs if v['key'] == key]
            if hit:
                cur, curv = cand, hit[0]
                progress = True
                break
    cur['shrink'] = {'candidates_tried': tried}
    return cur, curv


def _all_candidates(mod, cur):
    pre = cur.get('prelude')
    if pre:
        step = len(pre)
        while step >= 1:
            i = 0
            while i < len(pre):
                c = dict(cur)
                c['prelude'] = pre[:i] + pre[i + step:]
                if not c['prelude']:
                    del c['prelude']
                yield c
                i += step
            step //= 2
    for c in mod.shrink_candidates(cur):
        if pre and 'prelude' not in c:
            c['prelude'] = pre
        yield c


def _core_of(case):
    return jdump({k: v for k, v in case.items()
                  if k not in ('shrink', 'sched')})


def write_replay(mod, case, viol):
    d = os.path.join(VERIF, 'replays')
    os.makedirs(d, exist_ok=True)
    case = dict(case)
    case['violation'] = viol
    case['hashseed'] = os.environ.get('PYTHONHASHSEED')
    case['format'] = 1
    name = '%s-s%s-%s-%s-%04x.json' % (mod.ID, case.get('root_seed', 0),
                                      case.get('tier', 'x'),
                                      case.get('run_index', 'x'),
                                      h64(viol['key']) & 0xffff)
    path = os.path.join(d, name)
    with open(path, 'w') as f:
        json.dump(case, f, indent=1, sort_keys=True, default=repr)
    return path


def replay_in_fresh_process(mod, path):
    """Re-execute the replay file in a fresh interpreter; returns the set of
    violation keys it printed."""
    cmd = [sys.executable, os.path.join(VERIF, 'bin', 'check'), mod.ID,
           '--replay', path]
    env = dict(os.environ)
    try:
        out = subprocess.run(cmd, env=env, capture_output=True, text=True,
                             timeout=600)
    except subprocess.TimeoutExpired:
        return None, 'timeout'
    keys = [line.split('key=', 1)[1].strip()
            for line in out.stdout.splitlines() if line.startswith('REPLAY-VIOLATION')]
    return keys, out.stdout[-2000:] + out.stderr[-2000:]


# --------------------------------------------------------------------------
# evidence
# --------------------------------------------------------------------------

def write_evidence(mod, tier, root, stats, wall, nviol, params, extra=None):
    cov = mod.coverage(stats, params)
    runs = stats.n('runs')
    cov.setdefault('evaluations', runs)
    cov['runs'] = runs
    cov['runs_per_hour'] = int(runs / wall * 3600) if wall > 0 else 0
    cov['seeds_per_hour'] = cov['runs_per_hour']
    cov['run_index_range'] = [0, params['runs'] - 1]
    cov['workers'] = NPROC
    cov['pythonhashseed'] = os.environ.get('PYTHONHASHSEED')
    cov['repo'] = repo_root()
    if extra:
        cov.update(extra)
    ev = {
        'property_id': mod.ID,
        'tier': tier,
        'seed': root,
        'level': mod.LEVEL,
        'coverage': cov,
        'assumptions': list(getattr(mod, 'ASSUMPTIONS', [])),
        'wall_s': round(wall, 2),
        'violations': nviol,
    }
    d = os.path.join(VERIF, 'evidence')
    if repo_root() != os.path.realpath('/repo'):
        # a run against a scratch copy (sensitivity test) must not replace
        # the evidence of /repo itself
        d = os.path.join(VERIF, 'replays', 'scratch-evidence')
    os.makedirs(d, exist_ok=True)
    path = os.path.join(d, mod.ID + '.json')
    tmp = path + '.tmp'
    with open(tmp, 'w') as f:
        json.dump(ev, f, indent=1, sort_keys=True, default=repr)
    os.replace(tmp, path)
    return path


# --------------------------------------------------------------------------
# main
# --------------------------------------------------------------------------

def main(argv):
    import argparse
    ap = argparse.ArgumentParser()
    ap.add_argument('prop')
    ap.add_argument('--tier', default=os.environ.get('VERIF_TIER', 'quick'))
    ap.add_argument('--replay')
    ap.add_argument('--runs', type=int)
    ap.add_argument('--no-shrink', action='store_true')
    ap.add_argument('--digest', action='store_true',
                    help='print a digest of all run outcomes (self-test)')
    a = ap.parse_args(argv)

    if os.environ.get('PYTHONHASHSEED') != os.environ.get(
            'VERIF_HASHSEED', PINNED_HASHSEED):
        env = dict(os.environ)
        env['PYTHONHASHSEED'] = os.environ.get('VERIF_HASHSEED',
                                               PINNED_HASHSEED)
        os.execve(sys.executable, [sys.executable] + sys.argv, env)

    root = int(os.environ.get('VERIF_SEED', '0') or 0)
    prop = a.prop.upper()
    print('VERIF_SEED=%d property=%s tier=%s repo=%s PYTHONHASHSEED=%s'
          % (root, prop, a.tier, repo_root(),
             os.environ.get('PYTHONHASHSEED')), flush=True)
    try:
        import_yaql()
        mod = importlib.import_module('checks.' + prop.lower())
        if a.replay:
            return _main_replay(mod, a.replay)
        return _main_batch(mod, a, root)
    except HarnessError as e:
        print('HARNESS-ERROR: %s' % e, flush=True)
        return 2
    except Exception:
        print('HARNESS-ERROR: unexpected exception\n' +
              traceback.format_exc(), flush=True)
        return 2


def _main_replay(mod, path):
    case = json.load(open(path))
    case.pop('violation', None)
    if hasattr(mod, 'prepare'):
        if hasattr(mod, 'prepare_replay_case'):
            mod.prepare_replay_case(case)
        mod.prepare(dict(mod.TIERS['quick']), replay=True)
    stats = Stats()
    vs = exec_case(mod, case, stats)
    known = load_known(mod.ID)
    rc = 0
    for v in vs:
        print('REPLAY-VIOLATION key=%s' % v['key'])
        print('  clause: %s' % v.get('clause'))
        print('  detail: %s' % jdump(v.get('detail'))[:3000])
        ent = [e for e in known if mod.match_known(case, v, e)]
        if ent:
            print('KNOWN-FINDING: property=%s %s' % (mod.ID, ent[0]['what']))
        else:
            rc = 1
    if rc:
        print('VIOLATION property=%s replay=%s' % (mod.ID, path))
    elif not vs:
        print('replay: no violation')
    return rc


def _main_batch(mod, a, root):
    tier = a.tier
    if tier not in mod.TIERS:
        raise HarnessError('unknown tier %r' % tier)
    params = dict(mod.TIERS[tier])
    if a.runs:
        params['runs'] = a.runs
    t0 = time.time()
    extra = {}
    if hasattr(mod, 'prepare'):
        extra = mod.prepare(params) or {}
    stats, viols, errors = run_batch(mod, params, tier, root)
    wall = time.time() - t0
    if a.digest:
        print('DIGEST %016x' % h64(jdump({k: v for k, v in stats.c.items()
                                           if not k.startswith('nd.')}), jdump(
            {k: sorted(v) for k, v in stats.s.items()})))
    if errors:
        print('HARNESS-ERROR: %d run(s) raised inside the harness; first:\n%s'
              % (len(errors), errors[0][1]), flush=True)
        return 2
    if stats.n('runs') != params['runs']:
        raise HarnessError('ran %d of %d runs' % (stats.n('runs'),
                                                  params['runs']))
    known = load_known(mod.ID)
    printed_known = set()
    unknown = {}
    for i, case, v in sorted(viols, key=lambda t: t[0]):
        ent = [e for e in known if mod.match_known(case, v, e)]
        if ent:
            if ent[0]['id'] not in printed_known:
                printed_known.add(ent[0]['id'])
                print('KNOWN-FINDING: property=%s %s'
                      % (mod.ID, ent[0]['what']))
            continue
        unknown.setdefault(v['key'], (i, case, v))
    rc = 0
    nrep = 0
    orig_cases = {}
    for key, (i, case, v) in sorted(unknown.items(), key=lambda t: t[1][0]):
        if nrep >= 3:
            break
        nrep += 1
        orig_cases[key] = dict(case)
        if not a.no_shrink and hasattr(mod, 'shrink_candidates'):
            case, v = shrink(mod, case, v,
                             budget_s=params.get('shrink_budget_s', 90))
        path = write_replay(mod, case, v)
        keys, out = replay_in_fresh_process(mod, path)
        if (keys is None or v['key'] not in keys) and 'prelude' not in case:
            # the violation may depend on state left behind by the earlier
            # runs of the same (fresh, per-chunk) worker process: replay
            # with those runs as a prelude, then shrink the prelude
            cs = chunk_size(params)
            start = (i // cs) * cs
            pre = []
            for j in range(start, i):
                pc = mod.gen_case(Seeds(run_seed(root, mod.ID, tier, j)),
                                  params, j)
                pre.append(pc)
            case2 = dict(orig_cases[key])
            case2['prelude'] = pre
            vs2 = isolated_exec(mod, case2) or []
            hit = [x for x in vs2 if x['key'] == v['key']]
            if hit:
                case, v = case2, hit[0]
                if not a.no_shrink and hasattr(mod, 'shrink_candidates'):
                    case, v = shrink(mod, case, v, budget_s=params.get(
                        'shrink_budget_s', 90))
                path = write_replay(mod, case, v)
                keys, out = replay_in_fresh_process(mod, path)
        tries = 0
        while (keys is None or v['key'] not in keys) and tries < 4:
            # a violation that depends on something the simulator does not
            # own inside the code under test (object addresses reused by a
            # cache keyed on id(), say) may need more than one attempt; the
            # unshrunk case with its process history is the most faithful
            tries += 1
            cand = dict(orig_cases[key])
            if tries >= 2 and 'prelude' not in cand:
                cs = chunk_size(params)
                start = (i // cs) * cs
                cand['prelude'] = [
                    mod.gen_case(Seeds(run_seed(root, mod.ID, tier, j)),
                                 params, j) for j in range(start, i)]
            path = write_replay(mod, cand, v)
            keys, out = replay_in_fresh_process(mod, path)
            if keys is not None and v['key'] in keys:
                print('note: violation %s reproduces from the unshrunk case '
                      '(attempt %d); it is not fully determined by the '
                      'simulated inputs' % (v['key'], tries))
        if keys is None or v['key'] not in keys:
            print('HARNESS-ERROR: violation %s of run %d did not reproduce '
                  'in a fresh interpreter (replay %s)\n%s'
                  % (v['key'], i, path, out), flush=True)
            rc = max(rc, 2)
            continue
        print('violation key=%s clause=%s run_index=%d'
              % (v['key'], v.get('clause'), i))
        print('  detail: %s' % jdump(v.get('detail'))[:2000])
        print('VIOLATION property=%s replay=%s' % (mod.ID, path), flush=True)
        rc = 1 if rc == 0 else rc
    nviol = stats.n('runs_with_violation')
    write_evidence(mod, tier, root, stats, wall, nviol, params, extra)
    for w in getattr(mod, 'probe_warnings', lambda s: [])(stats):
        print('WARNING: probe at zero: %s' % w)
    print('%s: runs=%d violations(runs)=%d distinct-unknown=%d known=%d '
          'wall=%.1fs (%.0f runs/h)'
          % (mod.ID, stats.n('runs'), nviol, len(unknown),
             len(printed_known), wall, stats.n('runs') / wall * 3600))
    if rc == 2:
        return 2
    return rc
