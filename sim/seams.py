"""Seams installed by monkeypatching (no hook in /repo is needed).

S-order : the enumeration order of every overload layer handed to
          runner.choose_overload (wrapper around ContextBase.collect_functions)
S-hash  : the identity hash of FunctionDefinition objects, i.e. the *natural*
          iteration order of the sets overloads are stored in
S-stream: instrumented host streams (SimSource) and library-made endless
          generators (itertools proxy)
S-random: seeded random for yaql.standard_library.math
"""
import itertools as _it
import random

from sim import sched
from sim.core import SimAbort, SimBudgetExceeded, HarnessError  # noqa: F401


# ---------------------------------------------------------------------------
# S-order
# ---------------------------------------------------------------------------

def fd_key(fd):
    p = fd.payload
    code = getattr(p, '__code__', None)
    return (getattr(p, '__module__', '') or '',
            getattr(p, '__qualname__', '') or type(p).__name__,
            code.co_firstlineno if code else 0,
            fd.name or '', bool(fd.is_function), bool(fd.is_method),
            bool(fd.no_kwargs),
            tuple(sorted(str(k) for k in fd.parameters)))


class OrderSeam:
    """mode: 'natural' (pass through), 'canonical' (every layer sorted by
    fd_key), or a callable(name, layers) -> layers deciding the order."""
    _orig = None
    mode = 'natural'
    calls = 0

    @classmethod
    def install(cls):
        from yaql.language import contexts
        if cls._orig is not None:
            return
        cls._orig = contexts.ContextBase.collect_functions

        def collect_functions(self, name, predicate=None, use_convention=False):
            layers = cls._orig(self, name, predicate, use_convention)
            mode = cls.mode
            if mode == 'natural':
                return layers
            cls.calls += 1
            if mode == 'canonical':
                return [sorted(layer, key=fd_key) for layer in layers]
            return mode(name, layers)
        contexts.ContextBase.collect_functions = collect_functions

    @classmethod
    def set(cls, mode):
        cls.install()
        cls.mode = mode


# ---------------------------------------------------------------------------
# S-hash
# ---------------------------------------------------------------------------

class HashSeam:
    """FunctionDefinition.__hash__ under simulator control.  Values are
    assigned on first use: a running counter ('seq') or draws from a PRNG
    ('scramble'); the objects are kept alive so ids are never reused."""
    _installed = False
    table = {}
    keep = []
    counter = 0
    rng = None

    @classmethod
    def install(cls):
        from yaql.language import specs
        if cls._installed:
            return

        def __hash__(self):
            t = cls.table
            k = id(self)
            v = t.get(k)
            if v is None:
                if cls.rng is not None:
                    v = cls.rng.getrandbits(40)
                else:
                    cls.counter += 1
                    v = cls.counter * 0x9E3779B1 & 0xFFFFFFFFFF
                t[k] = v
                cls.keep.append(self)
            return v
        specs.FunctionDefinition.__hash__ = __hash__
        cls._installed = True

    @classmethod
    def reset(cls, rng=None):
        cls.install()
        cls.rng = rng


# ---------------------------------------------------------------------------
# S-stream
# ---------------------------------------------------------------------------

class SimIOError(Exception):
    """Injected read error of a host stream."""


class SimSource:
    """Instrumented host stream: value function, length (None = endless),
    read error at a position, pull counter, pull budget, pre-emption point
    per pull.  `on_pull(source, index)` lets a check log events."""

    def __init__(self, name='src', value=None, length=None, fail_at=None,
                 budget=None, on_pull=None, log=None):
        self.name = name
        self.value = value or (lambda i: i)
        self.length = length
        self.fail_at = fail_at
        self.budget = budget
        self.pulls = 0
        self.closed = False
        self.exhausted = False
        self.on_pull = on_pull
        self.log = log
        self.over_budget = False

    def __iter__(self):
        return self

    def __next__(self):
        sched.point('pull')
        i = self.pulls
        if self.length is not None and i >= self.length:
            self.exhausted = True
            raise StopIteration
        if self.budget is not None and i >= self.budget:
            self.over_budget = True
            raise SimBudgetExceeded('%s: pull budget %d exhausted'
                                    % (self.name, self.budget))
        self.pulls = i + 1
        if self.log is not None:
            self.log.append(('pull', self.name, i))
        if self.on_pull is not None:
            self.on_pull(self, i)
        if self.fail_at is not None and i == self.fail_at:
            raise SimIOError('%s: injected read error at %d' % (self.name, i))
        return self.value(i)


class HintedSource(SimSource):
    """A stream that also answers operator.length_hint - with the number of
    items it happens to have buffered, far fewer than it will deliver (PEP
    424: a hint may be wrong in either direction)."""

    hint = 1

    def __length_hint__(self):
        return self.hint


class ItertoolsProxy:
    """Stands in for the `itertools` name inside yaql modules: count / cycle
    / repeat return budgeted SimSource-backed iterators, everything else is
    the real itertools."""

    def __init__(self, budget, registry=None):
        self._budget = budget
        self._registry = registry if registry is not None else []

    def __getattr__(self, name):
        return getattr(_it, name)

    def _src(self, name, value, length=None):
        s = SimSource(name, value, length, budget=self._budget)
        self._registry.append(s)
        return s

    def count(self, start=0, step=1):
        return self._src('lib.count', lambda i: start + i * step)

    def repeat(self, obj, times=None):
        return self._src('lib.repeat', lambda i: obj, times)

    def cycle(self, iterable):
        saved = []
        src = iter(iterable)
        state = {'filled': False}

        def value(i):
            if not state['filled']:
                try:
                    v = next(src)
                    saved.append(v)
                    return v
                except StopIteration:
                    state['filled'] = True
                    if not saved:
                        raise
            return saved[i % len(saved)]
        s = self._src('lib.cycle', value)
        return _StopOnStop(s)


class _StopOnStop:
    """cycle([]) terminates: convert StopIteration raised by the value
    function into iterator exhaustion."""

    def __init__(self, src):
        self.src = src

    def __iter__(self):
        return self

    def __next__(self):
        return next(self.src)


def patch_itertools(budget, registry=None):
    """Returns an undo function."""
    from yaql.standard_library import queries
    mods = [queries]
    try:
        from yaql.standard_library import legacy
        mods.append(legacy)
    except Exception:
        pass
    proxy = ItertoolsProxy(budget, registry)
    saved = []
    for m in mods:
        if hasattr(m, 'itertools'):
            saved.append((m, m.itertools))
            m.itertools = proxy

    def undo():
        for m, v in saved:
            m.itertools = v
    return undo


# ---------------------------------------------------------------------------
# S-random
# ---------------------------------------------------------------------------

def patch_random(seed):
    from yaql.standard_library import math as ymath
    saved = ymath.random
    ymath.random = random.Random(seed)

    def undo():
        ymath.random = saved
    return undo
