"""Structural serialisation of parse trees, values and exceptions."""
import datetime


def ser_expr(e):
    from yaql.language import expressions as X
    if isinstance(e, X.Statement):
        return ['Statement', ser_expr(e.expression)]
    if isinstance(e, X.GetContextValue):
        return ['GetContextValue', ser_expr(e.path)]
    if isinstance(e, X.Function):
        r = [type(e).__name__, e.name]
        op = getattr(e, 'operator', None)
        if op is not None:
            r.append('op=' + str(op))
        r.extend(ser_expr(a) for a in e.args)
        return r
    if isinstance(e, X.Constant):
        return [type(e).__name__, type(e.value).__name__, safe_repr(e.value)]
    if isinstance(e, X.Wrap):
        return ['Wrap', ser_expr(e.expr)]
    if isinstance(e, X.MappingRuleExpression):
        return ['MappingRule', ser_expr(e.source), ser_expr(e.destination)]
    return ['?', type(e).__name__, repr(e)]


def safe_repr(v):
    try:
        return repr(v)
    except ValueError:
        # integers beyond the interpreter's int->str digit limit
        if isinstance(v, int):
            return 'int:bits=%d:low=%d' % (v.bit_length(), v & 0xffffffff)
        return '<unreprable %s>' % type(v).__name__


def ser_parse_error(e):
    return ['error', type(e).__name__, str(e),
            repr(getattr(e, 'value', None)), repr(getattr(e, 'position', None))]


def ser_value(v, depth=0):
    """Deep, type-preserving, order-insensitive for sets/dicts; JSON-able."""
    from yaql.language import utils
    if depth > 40:
        return ['deep']
    if v is None or isinstance(v, (bool, int, str)):
        return [type(v).__name__, v if not isinstance(v, int) or
                abs(v) < 1 << 62 else safe_repr(v)]
    if isinstance(v, float):
        return ['float', repr(v)]
    if isinstance(v, (list, tuple)):
        return [type(v).__name__] + [ser_value(x, depth + 1) for x in v]
    if isinstance(v, (dict, utils.FrozenDict)):
        items = [[ser_value(k, depth + 1), ser_value(x, depth + 1)]
                 for k, x in v.items()]
        items.sort(key=repr)
        return [type(v).__name__] + items
    if isinstance(v, (set, frozenset)):
        items = [ser_value(x, depth + 1) for x in v]
        items.sort(key=repr)
        return [type(v).__name__] + items
    if isinstance(v, (datetime.datetime, datetime.timedelta)):
        return [type(v).__name__, repr(v)]
    if isinstance(v, BaseException):
        return ['exc', type(v).__name__, str(v)]
    if utils.is_iterator(v):
        return ['iterator', type(v).__name__]
    return ['obj', type(v).__name__, _stable_repr(v)]


def _stable_repr(v):
    r = repr(v)
    if ' at 0x' in r:
        return '<%s>' % type(v).__name__
    return r


def ser_exc(e):
    return ['raised', type(e).__name__, str(e)]
