"""Introspective call synthesiser.

Walks a context chain, records every FunctionDefinition with its visible
parameters and which kinds of sample values each parameter's declared type
accepts (decided by calling the type's own check(), so a function added later
is covered without editing the checks), and builds yaql expression trees for
calls that put a chosen value into a chosen parameter.

A call spec is JSON:
  {'name': str, 'method': bool, 'args': [argspec...], 'kwargs': {k: argspec}}
argspec:
  ['lit', v] | ['var', name] | ['kw', name] | ['rule', name, argspec]
  | ['lam', yaql_text] | ['call', callspec] | ['list', [argspec...]]
"""
import datetime
import re

from sim import core

_cache = {}


# ---------------------------------------------------------------------------
# sample values per kind
# ---------------------------------------------------------------------------

class _It:
    def __iter__(self):
        return self

    def __next__(self):
        raise StopIteration


def sample(kind):
    from yaql.language import utils
    if kind == 'iter':
        return _It()
    if kind == 'tuple':
        return (1, 2)
    if kind == 'list':
        return [1, 2]
    if kind == 'fset':
        return frozenset([1, 2])
    if kind == 'set':
        return set([1, 2])
    if kind == 'fdict':
        return utils.FrozenDict({'a': 1})
    if kind == 'dict':
        return {'a': 1}
    if kind == 'int':
        return 2
    if kind == 'float':
        return 2.5
    if kind == 'str':
        return 'ab'
    if kind == 'bool':
        return True
    if kind == 'none':
        return None
    if kind == 'dt':
        return datetime.datetime(2020, 1, 2, 3, 4, 5,
                                 tzinfo=datetime.timezone.utc)
    if kind == 'ts':
        return datetime.timedelta(hours=1)
    if kind == 'regex':
        return re.compile('a')
    if kind == 'callable':
        return lambda *a, **k: None
    raise core.HarnessError('sample kind ' + kind)


KINDS = ['iter', 'tuple', 'list', 'fset', 'set', 'fdict', 'dict', 'int',
         'float', 'str', 'bool', 'none', 'dt', 'ts', 'regex', 'callable']
COLLECTION_KINDS = ('iter', 'tuple', 'list', 'fset', 'set', 'fdict', 'dict')


# ---------------------------------------------------------------------------
# inventory
# ---------------------------------------------------------------------------

def chain_contexts(flavour):
    key = ('chain', flavour)
    c = _cache.get(key)
    if c is None:
        import yaql
        if flavour == 'legacy':
            import yaql.legacy
            c = yaql.legacy.create_context()
        else:
            c = yaql.create_context()
        _cache[key] = c
    return c


def chain_engine(flavour, options=None):
    key = ('engine', flavour, core.jdump(options or {}))
    e = _cache.get(key)
    if e is None:
        import yaql
        if flavour == 'legacy':
            import yaql.legacy
            e = yaql.legacy.YaqlFactory().create(options)
        else:
            e = yaql.YaqlFactory().create(options)
        _cache[key] = e
    return e


def param_class(vt):
    from yaql.language import yaqltypes as T
    if isinstance(vt, T.HiddenParameterType):
        return 'hidden'
    if isinstance(vt, T.Lambda):
        return 'lambda'
    if isinstance(vt, T.MappingRule):
        return 'rule'
    if isinstance(vt, T.Keyword):
        return 'keyword'
    if isinstance(vt, T.YaqlExpression):
        return 'expr'
    if isinstance(vt, T.StringConstant):
        return 'const:str'
    if isinstance(vt, T.NumericConstant):
        return 'const:num'
    if isinstance(vt, T.BooleanConstant):
        return 'const:bool'
    if isinstance(vt, T.Constant):
        return 'const'
    if isinstance(vt, T.LazyParameterType):
        return 'lazy'
    return 'value'


def inventory(flavour):
    """List of entries {'name', 'fd', 'depth', 'method', 'function',
    'params': [ {key, name, alias, pos, default, cls, accepts} ] } in a
    deterministic order."""
    key = ('inv', flavour)
    inv = _cache.get(key)
    if inv is not None:
        return inv
    from yaql.language import specs
    from sim import seams
    ctx = chain_contexts(flavour)
    engine = chain_engine(flavour)
    inv = []
    c = ctx
    depth = 0
    while c is not None:
        funcs = layer_functions(c)
        for name in sorted(funcs):
            for fd in sorted(funcs[name], key=seams.fd_key):
                params = []
                for k, p in fd.parameters.items():
                    cls = param_class(p.value_type)
                    if cls == 'hidden':
                        continue
                    accepts = []
                    if cls == 'value':
                        for kind in KINDS:
                            try:
                                if p.value_type.check(sample(kind), ctx, engine):
                                    accepts.append(kind)
                            except Exception:
                                pass
                    params.append({
                        'key': k, 'name': p.name, 'alias': p.alias or p.name,
                        'pos': p.position,
                        'has_default': p.default is not specs.NO_DEFAULT,
                        'cls': cls, 'accepts': accepts})
                # visible positional order
                pos = sorted([p for p in params if p['pos'] is not None and
                              p['key'] != '*'], key=lambda p: p['pos'])
                inv.append({'name': name, 'fd': fd, 'depth': depth,
                            'method': bool(fd.is_method),
                            'function': bool(fd.is_function),
                            'no_kwargs': bool(fd.no_kwargs),
                            'positional': pos,
                            'varargs': next((p for p in params
                                             if p['key'] == '*'), None),
                            'kwonly': [p for p in params if p['pos'] is None
                                       and p['key'] != '**'],
                            'key': seams.fd_key(fd)})
        c = c.parent
        depth += 1
    _cache[key] = inv
    return inv


def layer_functions(ctx):
    """{name: collection of FunctionDefinition} registered in this context's
    OWN layer.  Reads the private table when it has its usual name and
    otherwise finds it structurally (a dict attribute whose values are
    collections of FunctionDefinition), so that a rename of the attribute or
    a change of container does not break the harness."""
    from yaql.language import specs
    t = getattr(ctx, '_functions', None)
    if isinstance(t, dict):
        return t
    try:
        attrs = vars(ctx).values()
    except TypeError:
        return {}
    for v in attrs:
        if isinstance(v, dict) and v:
            ok = True
            for x in v.values():
                if not isinstance(x, (set, frozenset, list, tuple)) or not all(
                        isinstance(y, specs.FunctionDefinition) for y in x):
                    ok = False
                    break
            if ok:
                return v
    return {}


def known_function_names(ctx):
    """Every function name registered anywhere in the chain of ctx."""
    names = set()
    c = ctx
    while c is not None:
        names.update(layer_functions(c))
        c = c.parent
    return sorted(names)


def public_snapshot(ctx, names, ser):
    """Observable state of ONE context through its public interface only:
    own-layer variables (keys() + own-layer reads) and, for every name in
    `names`, the identities of the own-layer overloads and the exclusive
    flag."""
    data = {}
    for k in ctx.keys():
        v = ctx.get_data(k, None, False)
        data[k] = (id(v), ser(v))
    funcs = {}
    # names registered since `names` was collected are found through the
    # function table when it can be located; observation stays public
    for n in sorted(set(names) | set(layer_functions(ctx)) |
                    {'#finalize', '#iter'}):
        fs, ex = ctx.get_functions(n)
        if fs or ex:
            funcs[n] = (frozenset(map(id, fs)), bool(ex))
    return data, funcs


SKIP_NAMES = ('#finalize', '#iter', '#get_context_data', 'assert', 'random',
              'randint', 'now', 'localtz', '#call', 'call', 'def', 'lambda')


def collection_targets(flavour):
    """[(entry_index, param_slot)] for every visible parameter that accepts
    at least one collection kind.  param_slot: ('pos', i) | ('var',) |
    ('kw', alias)."""
    key = ('targets', flavour)
    t = _cache.get(key)
    if t is None:
        t = []
        for ei, e in enumerate(inventory(flavour)):
            if e['name'] in SKIP_NAMES:
                continue
            for i, p in enumerate(e['positional']):
                if any(k in p['accepts'] for k in COLLECTION_KINDS):
                    t.append((ei, ['pos', i]))
            if e['varargs'] and any(k in e['varargs']['accepts']
                                    for k in COLLECTION_KINDS):
                t.append((ei, ['var']))
            for p in e['kwonly']:
                if any(k in p['accepts'] for k in COLLECTION_KINDS):
                    t.append((ei, ['kw', p['alias']]))
        _cache[key] = t
    return t


def lambda_targets(flavour):
    """[(entry_index, slot)] for every visible Lambda-typed parameter: the
    value a lambda RETURNS is another way a lazy sequence reaches a library
    function."""
    key = ('ltargets', flavour)
    t = _cache.get(key)
    if t is None:
        t = []
        for ei, e in enumerate(inventory(flavour)):
            if e['name'] in SKIP_NAMES:
                continue
            for i, p in enumerate(e['positional']):
                if p['cls'] == 'lambda':
                    t.append((ei, ['pos', i]))
            for p in e['kwonly']:
                if p['cls'] == 'lambda':
                    t.append((ei, ['kw', p['alias']]))
        _cache[key] = t
    return t


# ---------------------------------------------------------------------------
# filling the other parameters
# ---------------------------------------------------------------------------

LAMBDAS_BY_NAME = {
    'predicate': ['true', '$ != null', 'false', '$ = $'],
    'producer': ['$ + 1', '$', '1'],
    'selector': ['$', 'true', '1'],
    'key_selector': ['$', 'true'],
    'value_selector': ['$', '1'],
    'aggregator': ['$', '1'],
    'list_merger': ['$1', '$2'],
    'item_merger': ['$1', '$2'],
    'args': ['$', 'true'],
}


def pick_lambda(rng, pname):
    return ['lam', rng.choice(LAMBDAS_BY_NAME.get(pname, ['$', 'true', '1']))]


def pick_value(rng, p, prefer=None):
    """argspec for a parameter that is not the target."""
    cls = p['cls']
    if cls == 'lambda':
        return pick_lambda(rng, p['name'])
    if cls == 'rule':
        return ['rule', rng.choice(['a', 'b']), ['lit', rng.choice([1, 'x'])]]
    if cls == 'keyword':
        return ['kw', rng.choice(['a', 'b', 'len'])]
    if cls == 'expr':
        return ['lam', '$']
    if cls == 'const:str':
        return ['lit', rng.choice(['a', 'b'])]
    if cls == 'const:num':
        return ['lit', rng.choice([0, 1, 2])]
    if cls == 'const:bool':
        return ['lit', rng.choice([True, False])]
    if cls in ('const', 'lazy'):
        return ['lit', 1]
    acc = p['accepts']
    order = prefer or ['int', 'str', 'tuple', 'fdict', 'fset', 'bool', 'float',
                       'ts', 'dt', 'regex', 'callable', 'none', 'iter']
    if len(acc) >= len(KINDS) - 1:
        # untyped: anything goes
        order = rng.sample(['int', 'str', 'tuple', 'fdict', 'bool', 'none'], 6)
    for k in order:
        if k in acc:
            return value_spec(rng, k)
    return ['lit', None]


def value_spec(rng, kind):
    if kind == 'int':
        return ['lit', rng.choice([0, 1, 2, 3])]
    if kind == 'float':
        return ['lit', 1.5]
    if kind == 'str':
        return ['lit', rng.choice(['a', 'ab', ',', 'abc'])]
    if kind == 'bool':
        return ['lit', rng.choice([True, False])]
    if kind == 'none':
        return ['lit', None]
    return ['var', 'k_' + kind]


def std_vars():
    """Context variables the synthesised calls may refer to."""
    from yaql.language import utils
    return {
        'k_tuple': (3, 1, 2),
        'k_list': (3, 1, 2),
        'k_fset': frozenset([1, 2, 3]),
        'k_set': frozenset([1, 2, 3]),
        'k_fdict': utils.FrozenDict({'a': 1, 'b': 2}),
        'k_dict': utils.FrozenDict({'a': 1, 'b': 2}),
        'k_iter': (1, 2, 3),
        'k_dt': sample('dt'),
        'k_ts': sample('ts'),
        'k_regex': sample('regex'),
        'k_callable': (lambda *a, **k: a[0] if a else None),
    }


def synth_call(rng, flavour, target, target_arg):
    """Call spec with `target_arg` (an argspec) at the target parameter and
    seeded plausible values everywhere else."""
    ei, slot = target
    e = inventory(flavour)[ei]
    args = []
    kwargs = {}
    npos = len(e['positional'])
    last = npos - 1
    if slot[0] == 'pos':
        # fill positions up to the target; later ones only if required
        last = slot[1]
        for j in range(slot[1] + 1, npos):
            if not e['positional'][j]['has_default']:
                last = j
        if rng.random() < 0.3:
            last = npos - 1
    else:
        last = -1
        for j in range(npos):
            if not e['positional'][j]['has_default']:
                last = j
    for j in range(last + 1):
        p = e['positional'][j]
        if slot[0] == 'pos' and j == slot[1]:
            args.append(target_arg)
        else:
            args.append(pick_value(rng, p))
    if slot[0] == 'var':
        args.append(target_arg)
        if rng.random() < 0.3:
            args.append(pick_value(rng, e['varargs']))
    elif e['varargs'] and rng.random() < 0.15:
        args.append(pick_value(rng, e['varargs']))
    for p in e['kwonly']:
        if slot[0] == 'kw' and p['alias'] == slot[1]:
            kwargs[p['alias']] = target_arg
        elif not p['has_default']:
            kwargs[p['alias']] = pick_value(rng, p)
    method = e['method'] and (not e['function'] or rng.random() < 0.5) \
        and len(args) > 0
    return {'name': e['name'], 'method': bool(method), 'args': args,
            'kwargs': kwargs, 'entry': ei}


# ---------------------------------------------------------------------------
# building expression trees
# ---------------------------------------------------------------------------

def parse_lambda(flavour, text):
    key = ('lam', flavour, text)
    x = _cache.get(key)
    if x is None:
        x = _cache[key] = chain_engine(flavour)(text).expression
    return x


def build_arg(flavour, a):
    from yaql.language import expressions as X
    k = a[0]
    if k == 'lit':
        return X.Constant(a[1])
    if k == 'var':
        return X.GetContextValue(X.Constant('$' + a[1]))
    if k == 'kw':
        return X.KeywordConstant(a[1])
    if k == 'rule':
        return X.MappingRuleExpression(X.KeywordConstant(a[1]),
                                       build_arg(flavour, a[2]))
    if k == 'rulex':
        return X.MappingRuleExpression(build_arg(flavour, a[1]),
                                       build_arg(flavour, a[2]))
    if k == 'lam':
        return parse_lambda(flavour, a[1])
    if k == 'call':
        return build_call(flavour, a[1])
    if k == 'list':
        return X.ListExpression(*[build_arg(flavour, x) for x in a[1]])
    raise core.HarnessError('argspec %r' % (a,))


def build_call(flavour, spec):
    from yaql.language import expressions as X
    args = [build_arg(flavour, a) for a in spec['args']]
    for k, v in sorted(spec.get('kwargs', {}).items()):
        args.append(X.MappingRuleExpression(X.KeywordConstant(k),
                                            build_arg(flavour, v)))
    if spec.get('method') and args:
        f = X.Function(spec['name'], *args[1:])
        return X.BinaryOperator('.', args[0], f, None)
    f = X.Function(spec['name'], *args)
    f.uses_receiver = False
    return f


def build_statement(flavour, spec, options=None, derive=None):
    """derive: further options; the statement's engine is then a copy of
    the one created with `options`, made with engine.copy(derive) - the
    options it does not restate stay in force."""
    from yaql.language import expressions as X
    engine = chain_engine(flavour, options)
    if derive:
        key = ('derived', flavour, core.jdump(options or {}),
               core.jdump(derive))
        e2 = _cache.get(key)
        if e2 is None:
            e2 = _cache[key] = engine.copy(dict(derive))
        engine = e2
    return X.Statement(build_arg(flavour, spec) if isinstance(spec, list)
                       else build_call(flavour, spec), engine)


def describe(spec):
    """Readable one-line rendering of a call spec (for reports)."""
    def a(x):
        k = x[0]
        if k == 'lit':
            return repr(x[1])
        if k == 'var':
            return '$' + x[1]
        if k == 'kw':
            return x[1]
        if k == 'rule':
            return '%s => %s' % (x[1], a(x[2]))
        if k == 'rulex':
            return '%s => %s' % (a(x[1]), a(x[2]))
        if k == 'lam':
            return '{%s}' % x[1]
        if k == 'call':
            return describe(x[1])
        if k == 'list':
            return '[%s]' % ', '.join(a(y) for y in x[1])
        return '?'
    args = [a(x) for x in spec['args']] + [
        '%s => %s' % (k, a(v)) for k, v in sorted(spec.get('kwargs', {}).items())]
    if spec.get('method') and args:
        return '%s.%s(%s)' % (args[0], spec['name'], ', '.join(args[1:]))
    return '%s(%s)' % (spec['name'], ', '.join(args))
