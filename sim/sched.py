"""Baton-passing scheduler over real threads.

Only the thread that holds the baton runs; all others are parked on their own
semaphore.  Who runs next, and for how many pre-emption points, is decided by
a policy driven by the run's `schedule` PRNG stream, or dictated by an
explicit schedule (list of [task, steps] segments) from a replay file.  The
segments actually executed are recorded, so every run can be replayed and its
schedule edited by the shrinker.

Pre-emption points are delivered by the seams: a wrapper around
ply.lex.Lexer.token (token granularity), a sys.settrace line tracer
restricted to frames of chosen files (line granularity), SimSource.__next__
(pull granularity).  All of them call Baton.point().
"""
import random
import sys
import threading

from sim.core import SimAbort, SimBudgetExceeded, HarnessError

_current = threading.local()


def current_baton():
    return getattr(_current, 'baton', None)


def point(kind='p'):
    """Pre-emption point usable from seams; no-op outside a simulation."""
    b = getattr(_current, 'baton', None)
    if b is not None:
        b.point(kind)


class Task:
    __slots__ = ('tid', 'fn', 'sem', 'thread', 'done', 'result', 'error',
                 'steps', 'started')

    def __init__(self, tid, fn):
        self.tid = tid
        self.fn = fn
        self.sem = threading.Semaphore(0)
        self.thread = None
        self.done = False
        self.result = None
        self.error = None
        self.steps = 0
        self.started = False


class Policy:
    """Decides segments (task, quantum) from a PRNG; see DESIGN 2.2."""

    def __init__(self, spec):
        self.spec = spec
        self.rng = random.Random(spec.get('seed', 0))
        self.kind = spec.get('policy', 'random')
        self.mean = spec.get('mean', 3)
        # pct: list of global step indices at which a switch is forced
        self.switch_at = sorted(spec.get('switch_at', []))
        # writes: indices of write-points (line events that follow a line
        # which stores into an attribute / subscript / global or calls a
        # mutating method) at which a switch is forced
        self.switch_at_w = set(tuple(x) for x in spec.get('switch_at_w', []))
        self.gstep = 0

    def next_segment(self, runnable, last):
        rng = self.rng
        if self.kind == 'sequential':
            return runnable[0], 1 << 60
        if self.kind == 'writes':
            others = [t for t in runnable if t != last] or runnable
            return rng.choice(others), 1 << 60
        if self.kind == 'pct':
            # run one task until the next forced switch point
            others = [t for t in runnable if t != last] or runnable
            task = rng.choice(others)
            while self.switch_at and self.switch_at[0] <= self.gstep:
                self.switch_at.pop(0)
            if self.switch_at:
                q = self.switch_at[0] - self.gstep
            else:
                q = 1 << 60
            return task, q
        task = rng.choice(runnable)
        q = 1 + int(rng.expovariate(1.0 / self.mean)) if self.mean > 0 else 1
        return task, q


class Baton:
    def __init__(self, sched_spec=None, schedule=None, step_cap=2000000,
                 tracer_files=None, on_switch=None, write_lines=None,
                 thread_name=None):
        self.tasks = []
        self.schedule_in = None if schedule is None else [
            list(s) for s in schedule]
        self.pos = 0
        self.policy = Policy(sched_spec or {'policy': 'sequential'})
        self.recorded = []          # [[task, steps], ...] actually executed
        self.cur = None
        self.quantum = 0
        self.seg_steps = 0
        self.total_steps = 0
        self.step_cap = step_cap
        self.aborted = None
        self.main_sem = threading.Semaphore(0)
        self.switches = 0
        self.tracer_files = tuple(tracer_files or ())
        self._code_cache = {}
        self.on_switch = on_switch  # callback(frm_task, to_task, baton)
        self.kinds = {}
        self.write_lines = write_lines or frozenset()
        self.wcount = 0
        self.wsite = {}
        self.lock_yields = 0
        self.thread_name = thread_name

    # -- task management -------------------------------------------------
    def add(self, fn):
        t = Task(len(self.tasks), fn)
        self.tasks.append(t)
        return t

    def _runnable(self):
        return [t.tid for t in self.tasks if not t.done]

    def _pick(self, last):
        runnable = self._runnable()
        if not runnable:
            return None
        if self.schedule_in is not None:
            while self.pos < len(self.schedule_in):
                tid, q = self.schedule_in[self.pos]
                self.pos += 1
                if tid in runnable and q > 0:
                    return tid, q
            return runnable[0], 1 << 60
        self.policy.gstep = self.total_steps
        return self.policy.next_segment(runnable, last)

    def _close_segment(self):
        if self.cur is not None and self.seg_steps > 0:
            if self.recorded and self.recorded[-1][0] == self.cur:
                self.recorded[-1][1] += self.seg_steps
            else:
                self.recorded.append([self.cur, self.seg_steps])
        self.seg_steps = 0

    def _dispatch(self, me):
        """Choose the next segment and transfer the baton.  Called by the
        thread that currently holds it (task `me`, or None for main)."""
        self._close_segment()
        nxt = self._pick(me)
        if nxt is None:
            self.cur = None
            self.main_sem.release()
            return
        tid, q = nxt
        self.quantum = q
        if tid != self.cur:
            self.switches += 1
            if self.on_switch is not None and self.cur is not None:
                self.on_switch(self.cur, tid, self)
        self.cur = tid
        if tid != me:
            self.tasks[tid].sem.release()
            if me is not None and not self.tasks[me].done:
                self.tasks[me].sem.acquire()
                if self.aborted:
                    raise SimAbort(self.aborted)

    # -- pre-emption point -----------------------------------------------
    def point(self, kind='p', wp=False):
        me = getattr(_current, 'tid', None)
        if me is None or me != self.cur:
            return
        if self.aborted:
            raise SimAbort(self.aborted)
        self.total_steps += 1
        self.seg_steps += 1
        self.tasks[me].steps += 1
        self.quantum -= 1
        if wp:
            self.wcount += 1
            n = self.wsite.get(wp, 0) + 1
            self.wsite[wp] = n
            if self.schedule_in is None and \
                    (wp[0], wp[1], n) in self.policy.switch_at_w:
                self.quantum = 0
        if self.total_steps > self.step_cap:
            self._abort('step cap %d exceeded' % self.step_cap)
            raise SimBudgetExceeded(self.aborted)
        if self.quantum <= 0:
            self._dispatch(me)

    def yield_now(self):
        """The current task cannot make progress (it waits for a lock another
        simulated task holds): hand the baton to the next runnable task in
        cyclic order for a short quantum.  Recorded like any other segment."""
        me = getattr(_current, 'tid', None)
        if me is None or me != self.cur:
            return
        if self.aborted:
            raise SimAbort(self.aborted)
        self.lock_yields += 1
        if self.lock_yields > 200000:
            self._abort('tasks spin on a lock that is never released')
            raise SimBudgetExceeded(self.aborted)
        if self.schedule_in is not None:
            # replay: the recorded schedule already contains the switch
            self.quantum = 0
            self._dispatch(me)
            return
        runnable = [t for t in self._runnable() if t != me]
        if not runnable:
            return
        nxt = min((t for t in runnable if t > me), default=runnable[0])
        self._close_segment()
        self.switches += 1
        if self.on_switch is not None:
            self.on_switch(me, nxt, self)
        self.cur = nxt
        self.quantum = 25
        self.tasks[nxt].sem.release()
        self.tasks[me].sem.acquire()
        if self.aborted:
            raise SimAbort(self.aborted)

    def _abort(self, why):
        if self.aborted is None:
            self.aborted = why

    # -- tracing ---------------------------------------------------------
    def _global_trace(self, frame, event, arg):
        code = frame.f_code
        ok = self._code_cache.get(code)
        if ok is None:
            fn = code.co_filename
            ok = fn.startswith(self.tracer_files)
            self._code_cache[code] = ok
        if ok:
            if self.write_lines:
                # function entry is a site too: "switch right after the k-th
                # entry into this function" (rarely called helpers are where
                # per-process caches and lazily built tables live)
                _current.after_write = (code.co_filename, -code.co_firstlineno)
            return self._local_trace
        return None

    def _local_trace(self, frame, event, arg):
        if event == 'line':
            wp = getattr(_current, 'after_write', None)
            if self.write_lines:
                site = (frame.f_code.co_filename, frame.f_lineno)
                _current.after_write = site if site in self.write_lines \
                    else None
            self.point('line', wp)
        return self._local_trace

    # -- thread bodies ---------------------------------------------------
    def _body(self, task):
        _current.baton = self
        _current.tid = task.tid
        task.sem.acquire()
        try:
            if self.aborted:
                raise SimAbort(self.aborted)
            task.started = True
            if self.tracer_files:
                sys.settrace(self._global_trace)
            try:
                task.result = task.fn()
            finally:
                sys.settrace(None)
        except SimAbort as e:
            task.error = e
        except BaseException as e:   # harness bug inside a task function
            task.error = e
            self._abort('task %d raised %r' % (task.tid, e))
        finally:
            task.done = True
            _current.baton = None
            if self.aborted:
                for t in self.tasks:
                    t.sem.release()
                self.main_sem.release()
            else:
                try:
                    self._dispatch(task.tid)
                except SimAbort:
                    pass

    def run(self):
        for t in self.tasks:
            t.thread = threading.Thread(target=self._body, args=(t,),
                                        name=self.thread_name or
                                        'sim-task-%d' % t.tid,
                                        daemon=True)
            t.thread.start()
        self._dispatch(None)
        self.main_sem.acquire()
        if self.aborted:
            for t in self.tasks:
                t.sem.release()
        for t in self.tasks:
            t.thread.join(30)
            if t.thread.is_alive():
                raise HarnessError('task %d did not terminate' % t.tid)
        self._close_segment()
        for t in self.tasks:
            if t.error is not None and not isinstance(t.error, SimAbort):
                raise HarnessError('task %d: %r' % (t.tid, t.error))
        return [t.result for t in self.tasks]


# ---------------------------------------------------------------------------
# static detection of lines that may write shared state
# ---------------------------------------------------------------------------

MUTATORS = frozenset(['append', 'add', 'update', 'pop', 'setdefault', 'insert',
                      'extend', 'discard', 'clear', 'remove', 'popleft',
                      'appendleft', 'register_function', 'delete_function',
                      'sort', 'reverse', 'rotate',
                      # process-wide settings of the interpreter / C library
                      'tzset', 'seed', 'setlocale', 'setrecursionlimit',
                      'setswitchinterval', 'putenv', 'unsetenv', 'chdir',
                      'umask', 'setdefaulttimeout', 'setprofile', 'settrace',
                      'setcontext', 'truncate', 'write', 'seek'])


def _is_mutator(attr):
    return attr in MUTATORS or attr.startswith('set_')


GLOBAL_SITES = set()    # sites that touch a name declared `global`


def find_write_lines(root):
    """(filename, lineno) of the last line of every statement under `root`
    that stores into an attribute, a subscript or a declared global, deletes
    one, or calls a mutating method."""
    import ast
    import os
    out = set()
    for d, _, files in os.walk(root):
        if os.sep + 'tests' in d:
            continue
        for fn in files:
            if not fn.endswith('.py'):
                continue
            path = os.path.join(d, fn)
            try:
                tree = ast.parse(open(path).read())
            except Exception:
                continue
            # names some function declares `global`: module-level mutable
            # state; every line that reads or writes one of them is a site
            # (a check-then-use window on such a name has no store in it)
            mod_globals = set()
            for n in ast.walk(tree):
                if isinstance(n, ast.Global):
                    mod_globals.update(n.names)
            if mod_globals:
                for fnode in ast.walk(tree):
                    if isinstance(fnode, ast.FunctionDef):
                        for n in ast.walk(fnode):
                            if isinstance(n, ast.Name) and n.id in mod_globals:
                                out.add((path, n.lineno))
                                GLOBAL_SITES.add((path, n.lineno))
            for fnode in ast.walk(tree):
                if not isinstance(fnode, (ast.FunctionDef, ast.Lambda)):
                    continue
                globs = set()
                for n in ast.walk(fnode):
                    if isinstance(n, (ast.Global, ast.Nonlocal)):
                        globs.update(n.names)
                for n in ast.walk(fnode):
                    hit = False
                    if isinstance(n, (ast.Assign, ast.AugAssign, ast.AnnAssign,
                                      ast.Delete)):
                        targets = n.targets if isinstance(
                            n, (ast.Assign, ast.Delete)) else [n.target]
                        for t in targets:
                            for x in ast.walk(t):
                                if isinstance(x, (ast.Attribute, ast.Subscript)):
                                    hit = True
                                if isinstance(x, ast.Name) and x.id in globs:
                                    hit = True
                    elif isinstance(n, ast.Expr) and isinstance(n.value, ast.Call):
                        f = n.value.func
                        if isinstance(f, ast.Attribute) and _is_mutator(f.attr):
                            hit = True
                    if hit:
                        out.add((path, getattr(n, 'end_lineno', n.lineno)))
    return frozenset(out)


class LineCounter:
    """Counts line events and write-points of yaql frames in the current
    thread (used to size PCT / write-point schedules)."""

    def __init__(self, prefixes, write_lines):
        self.prefixes = tuple(prefixes)
        self.write_lines = write_lines
        self.lines = 0
        self.wpoints = 0
        self.sites = {}
        self._after = None
        self._cache = {}

    def _global(self, frame, event, arg):
        code = frame.f_code
        ok = self._cache.get(code)
        if ok is None:
            ok = self._cache[code] = code.co_filename.startswith(self.prefixes)
        if ok and self.write_lines:
            self._after = (code.co_filename, -code.co_firstlineno)
        return self._local if ok else None

    def _local(self, frame, event, arg):
        if event == 'line':
            self.lines += 1
            if self._after is not None:
                self.wpoints += 1
                self.sites[self._after] = self.sites.get(self._after, 0) + 1
            site = (frame.f_code.co_filename, frame.f_lineno)
            self._after = site if site in self.write_lines else None
        return self._local

    def __enter__(self):
        self._old = sys.gettrace()
        sys.settrace(self._global)
        return self

    def __exit__(self, *a):
        sys.settrace(self._old)


# ---------------------------------------------------------------------------
# locks: a simulated task that blocks on a real lock would keep the baton
# ---------------------------------------------------------------------------

import threading as _threading

_REAL_LOCK = _threading.Lock
_REAL_RLOCK = _threading.RLock
_LOCK_TYPES = (type(_REAL_LOCK()), type(_REAL_RLOCK()))


class CoopLock:
    """Drop-in lock for the code under test: blocking acquisition by a
    simulated task yields the baton instead of blocking the whole
    simulation; outside a simulation it is a plain lock."""

    def __init__(self, real):
        self._real = real

    def acquire(self, blocking=True, timeout=-1):
        b = current_baton()
        if b is None or not blocking:
            if not blocking:
                return self._real.acquire(False)
            return self._real.acquire(True, timeout)
        while not self._real.acquire(False):
            b.yield_now()
        return True

    def release(self):
        self._real.release()

    def locked(self):
        return self._real.locked()

    def __enter__(self):
        self.acquire()
        return self

    def __exit__(self, *a):
        self.release()


def _from_code_under_test(depth=2):
    f = sys._getframe(depth)
    name = f.f_globals.get('__name__', '')
    return name == 'yaql' or name.startswith('yaql.')


def _lock_factory(*a, **k):
    real = _REAL_LOCK(*a, **k)
    return CoopLock(real) if _from_code_under_test() else real


def _rlock_factory(*a, **k):
    real = _REAL_RLOCK(*a, **k)
    return CoopLock(real) if _from_code_under_test() else real


def install_coop_locks():
    """Locks created by yaql code from now on, and lock objects already held
    in yaql module globals (or one level inside module-global objects),
    become cooperative.  Idempotent."""
    _threading.Lock = _lock_factory
    _threading.RLock = _rlock_factory
    for name, mod in list(sys.modules.items()):
        if not (name == 'yaql' or name.startswith('yaql.')) or mod is None:
            continue
        for k, v in list(vars(mod).items()):
            if isinstance(v, _LOCK_TYPES):
                setattr(mod, k, CoopLock(v))
            elif hasattr(v, '__dict__') and not isinstance(v, type(sys)) \
                    and type(v).__module__.startswith('yaql'):
                try:
                    for k2, v2 in list(vars(v).items()):
                        if isinstance(v2, _LOCK_TYPES):
                            setattr(v, k2, CoopLock(v2))
                except Exception:
                    pass
