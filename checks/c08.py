"""C08 - iterator limit and memory quota bound every evaluation.

Simulated: the hostile environment the two options exist for.  Every
parameter of every registered function (default and legacy chains,
introspected at run time) that accepts a collection is fed, one at a time,
by an instrumented stream: endless, finite around the boundary N-1/N/N+1,
sized collections around the boundary, library-made endless generators
(itertools is proxied so they are budgeted SimSources too).  A logical step
budget (pulls per source, call events in yaql frames) replaces the wall-clock
watchdog, so "does not terminate" is a finite, replayable event.  A second
family grows values under a small memory quota.
"""
import sys

from sim import core, seams, synth

ID = 'C08'
LEVEL = 'fault_enumeration'
ASSUMPTIONS = [
    'targets are introspected: every visible parameter whose declared type '
    'accepts an iterator / sequence / set / mapping sample (decided by the '
    "type's own check()), in the default and the legacy context chain",
    'a source is handed to exactly one parameter, so re-wrapping cannot '
    'legitimately inflate its pull count beyond N+1',
    'memory: sys.getsizeof of the values yaql itself measures (arguments '
    'seen by payloads, top-level result); nested result sizes are not '
    'compared with Q (output conversion builds over-allocated lists)',
    'termination = finishing within 50*(N+1) pulls per source and 4M call '
    'events in yaql frames; a loop that neither pulls nor calls is only '
    'bounded by the wall guard and reported as HARNESS-ERROR',
]

TIERS = {
    'quick': {'runs': 6400, 'chunk': 100, 'timeout_s': 900},
    'thorough': {'runs': 320000, 'chunk': 1000, 'timeout_s': 6 * 3600,
                 'chunk_timeout_s': 3000},
}

NS = [0, 1, 2, 3, 7, 10, 100]
CALL_BUDGET = 4000000
_mon = {'Q': -1, 'over': [], 'ran': None, 'calls': 0}
_state = {}


# ---------------------------------------------------------------------------
# payload monitor (S-alloc): sizes of arguments actually passed to payloads
# ---------------------------------------------------------------------------

MEASURED = (str, bytes, list, tuple, dict, set, frozenset, int)


def install_payload_monitor():
    if _state.get('monitor'):
        return
    from yaql.language import utils
    for flavour in ('default', 'legacy'):
        for e in synth.inventory(flavour):
            fd = e['fd']
            if getattr(fd.payload, '__c08__', False):
                continue
            fd.payload = _wrap(fd.payload, e['key'], utils)
    _state['monitor'] = True


def _wrap(orig, key, utils):
    def payload(*args, **kwargs):
        ran = _mon['ran']
        if ran is not None:
            ran.add(key[1])
        q = _mon['Q']
        if q > 0:
            for a in args:
                if isinstance(a, MEASURED) or isinstance(a, utils.FrozenDict):
                    sz = sys.getsizeof(a, 0)
                    if sz > q:
                        _mon['over'].append((key[1], type(a).__name__, sz))
            for a in kwargs.values():
                if isinstance(a, MEASURED) or isinstance(a, utils.FrozenDict):
                    sz = sys.getsizeof(a, 0)
                    if sz > q:
                        _mon['over'].append((key[1], type(a).__name__, sz))
        return orig(*args, **kwargs)
    payload.__c08__ = True
    payload.__name__ = getattr(orig, '__name__', 'payload')
    payload.__wrapped_payload__ = orig
    # yaql inspects payload signatures only at definition time
    return payload


def call_tracer(prefix):
    def tr(frame, event, arg):
        if frame.f_code.co_filename.startswith(prefix):
            _mon['calls'] += 1
            if _mon['calls'] > CALL_BUDGET:
                raise core.SimBudgetExceeded('call-event budget exhausted')
        return None
    return tr


# ---------------------------------------------------------------------------
# case generation
# ---------------------------------------------------------------------------

def prepare(params, replay=False):
    core.import_yaql()
    for fl in ('default', 'legacy'):
        synth.inventory(fl)
        synth.collection_targets(fl)
        synth.chain_engine(fl)
    install_payload_monitor()
    return {'introspected_definitions': {
        fl: len(synth.inventory(fl)) for fl in ('default', 'legacy')},
        'introspected_collection_parameters': {
        fl: len(synth.collection_targets(fl)) for fl in ('default', 'legacy')}}


WRAPS = ['none', 'none', 'none', 'toList', 'len', 'first', 'wherefalsefirst',
         'listexpr', 'dictexpr', 'listlist', 'selectpair', 'dictkey',
         'dictkeylist', 'setof', 'setoflist', 'dictitems', 'listset']
GROW = [
    "$a + $a + $a + $a",
    "($a + $b) * $n",
    "$a * $n",
    "$n * $a",
    "$l * $n",
    "($l + $l) * $n",
    "$l.select($a).join(',')",
    "join($l.select(str($) + $a), $b)",
    "$a.replace('a', $b)",
    "$a.replace({a => $b, b => $b})",
    "$l.accumulate($1 + $a, '')",
    "$l.aggregate($1 + $a + $b, '')",
    "$l.toDict($, $a * $n)",
    "$l.select($ mod 3).groupBy($, $a)",
    "$l.select([$, $a]).distinct()",
    "$l.select($a + str($)).memorize().toList()",
    "$l.select($a + str($)).toSet()",
    "dict($l.select([$, $a]))",
    "$l.select($a) + $l.select($b)",
    "list($a, $b, $a + $b) * $n",
    "concat($a, $b, $a, $b)",
    "format('{0}{1}{0}', $a, $b) * $n",
    "{a => $a, b => $a + $b}.set(c, $a * $n)",
    "$l.orderBy($).select($a * $n)",
    "($a * $n).toUpper() + $b",
    "$a.split('a').select($ + $b)",
    "'{0}'.format($a * $n)",
    "$big.len()",
    "len($bigl)",
    "$big.toUpper().len()",
    "$bigl.select($).first()",
    "[1, 2].select($big).len()",
    "$big.split('y').len()",
    "$big in $a",
    "pow(7, $n * 2000)",
    "pow(2, $n * 4000) + 1",
    "shiftBitsLeft(1, $n * 8000)",
    "[1, 2, 3, 4, 5, 6, 7, 8, 9, 10, 11, 12, 13, 14, 15, 16]"
    ".aggregate($1 * $1, 3)",
    "$l.take(12).accumulate($1 * $1 + 1, 3).last()",
    "$bigi + 1",
    "str($bigi).len()",
    "[$bigi].len()",
    "@LIT@.len()",
    "@LIT@ + $a",
    "$a + @LIT@",
    "@LIT@.toUpper()",
    "$l.select(@LIT@).len()",
    "$a.replace('a', $b)",
    "$a.replace('a', $b + $b)",
    "$a.toUpper() + $b.toUpper()",
    "$b.join($l.select($a))",
]


def gen_case(seeds, params, index):
    w = seeds.stream('workload')
    f = seeds.stream('faults')
    r = w.random()
    if r < 0.18:
        return gen_quota_case(w, f)
    if r < 0.2:
        return {'family': 'prealloc',
                'expr': w.choice(["$a * $n", "$n * $a", "$l * $n", "$n * $l",
                                  "($a + $a) * $n"]),
                'a': w.choice(['ab', 'x', u'éé', 'abcdefgh']),
                'l': w.choice([[1], [1, 2], [1, 2, 3], list(range(8))]),
                'n': w.choice([20000000, 30000000]), 'Q': 10000}
    flavour = 'legacy' if index % 2 else 'default'
    if r < 0.24:
        # a call on the lazy sequence that cannot be resolved: producing the
        # error must not consume the sequence either
        N = f.choice(NS)
        name, extra = w.choice([('noSuchMethod', [['lit', 1]]),
                                ('toUpper', []), ('len', [['lit', 1], ['lit', 2]]),
                                ('take', [['lit', 'x']]), ('startsWith', [['lit', 'a']]),
                                ('select', []), ('format', [])])
        call = {'name': name, 'method': w.random() < 0.8,
                'args': [['var', 's']] + extra, 'kwargs': {}}
        return {'family': 'limit', 'flavour': flavour, 'N': N, 'Q': -1,
                'target': [name, ['pos', 0], -1],
                'stream': f.choice([['endless'], ['finite', N + 1]]),
                'call': call, 'wrap': 'none', 'convert_output': True,
                'failing_call': True}
    if r < 0.30:
        return gen_host_case(w, f, flavour, index)
    if r < 0.34:
        return gen_pair_case(w, f, flavour, index)
    if r < 0.48:
        return gen_lambda_result_case(w, f, flavour, index)
    targets = synth.collection_targets(flavour)
    ti = (index // 2) % len(targets)
    ei, slot = targets[ti]
    e = synth.inventory(flavour)[ei]
    if slot[0] == 'pos':
        p = e['positional'][slot[1]]
    elif slot[0] == 'var':
        p = e['varargs']
    else:
        p = [x for x in e['kwonly'] if x['alias'] == slot[1]][0]
    N = f.choice(NS)
    kinds = []
    acc = p['accepts']
    if 'iter' in acc:
        kinds += [['endless'], ['endless'], ['endless_empties'], ['endless_empties'],
                  ['endless_hinted', 0], ['endless_hinted', min(N, 2)],
                  ['finite', N + 1], ['finite', N],
                  ['finite', max(0, N - 1)], ['lib', 'sequence'],
                  ['lib', 'cycle'], ['lib', 'repeat'], ['lib', 'generate'],
                  ['lib', 'range', N + 1]]
    for k in ('tuple', 'fset', 'fdict'):
        if k in acc:
            kinds += [['sized', k, N + 1], ['sized', k, N],
                      ['sized', k, max(0, N - 1)]]
    if not kinds:
        kinds = [['sized', 'tuple', N + 1]]
    stream = f.choice(kinds)
    if stream[0] == 'lib':
        targ = lib_call(stream)
    else:
        targ = ['var', 's']
    call = synth.synth_call(w, flavour, (ei, slot), targ)
    case = {'family': 'limit', 'flavour': flavour, 'N': N,
            'Q': f.choice([-1, -1, -1, 2000, 20000]),
            'target': [e['name'], slot, ei], 'stream': stream, 'call': call,
            'wrap': w.choice(WRAPS), 'convert_output': w.random() < 0.8,
            'ctx_shape': w.choice(['plain'] * 8 + ['linked_bare', 'multi_bare'])}
    if w.random() < 0.12:
        # the host derives a per-request engine from the protected one with
        # engine.copy(): the limits it does not restate stay in force
        case['derive'] = w.choice(DERIVES)
    if stream[0] in ('endless', 'finite') and w.random() < 0.2:
        # the lazy sequence reaches the expression inside the input data
        # (a value of a dictionary, a member of a list) instead of a variable
        case['data_shape'] = w.choice(DATA_SHAPES)
    elif 'iter' in acc and w.random() < 0.25:
        # the lazy sequence is handed over one level down: as a member of
        # the list / a value of the dictionary that is the argument (a
        # function that descends into its argument meets it there)
        case['arg_nest'] = w.choice(ARG_NESTS)
        case['stream'] = f.choice([['endless'], ['endless_empties'],
                                   ['endless_empties'], ['finite', N + 1]])
        case['call'] = synth.synth_call(w, flavour, (ei, slot), ['var', 's'])
    return case


DERIVES = [{'yaql.convertSetsToLists': True}, {'yaql.convertTuplesToLists': False},
           {'yaql.allowDelegates': True}, {'yaql.convertInputData': True},
           {'yaql.iterableDicts': True}]
PAIR_OPS = [('*equal', False), ('*not_equal', False),
            ('#operator_<', False), ('#operator_>=', False),
            ('#operator_in', False), ('#operator_+', False),
            ('#operator_and', False), ('#operator_or', False),
            ('#operator_*', False), ('#operator_-', False),
            ('zip', True), ('concat', True), ('zipLongest', True),
            ('isEqual', False), ('coalesce', False), ('max', False),
            ('contains', True), ('indexOf', True), ('list', False),
            ('append', True), ('union', True), ('intersect', True)]


def gen_pair_case(w, f, flavour, index):
    """Two lazy sequences that deliver the same items meet in one operator
    or function."""
    N = f.choice(NS)
    name, method = PAIR_OPS[(index // 2) % len(PAIR_OPS)]
    a, b = ['var', 's'], ['var', 's2']
    shape = w.choice(['plain', 'plain', 'listed', 'left_list', 'swapped'])
    if shape == 'listed':
        a, b = ['list', [a]], ['list', [b]]
    elif shape == 'left_list':
        a = ['list', [['lit', 0], ['lit', 1], ['lit', 2]]]
    elif shape == 'swapped':
        a, b = b, a
    call = {'name': name, 'method': method, 'args': [a, b], 'kwargs': {}}
    return {'family': 'limit', 'flavour': flavour, 'N': N, 'Q': -1,
            'target': ['pair:' + name, ['pos', 0], -1],
            'stream': f.choice([['endless'], ['endless'], ['finite', N + 1],
                                ['finite', 4 * N + 8]]),
            'stream2': True, 'call': call,
            'wrap': w.choice(['none', 'none', 'len', 'first', 'toList']),
            'convert_output': True}


ARG_NESTS = ['list', 'listlist', 'list2', 'dictvalues', 'listlast']


# how a host function may declare a parameter that takes a lazy sequence with
# the documented type system (yaqltypes) - every one of them limits
HOST_DECLS = ['iterable', 'iterator', 'chain_iter_first', 'chain_iter_last',
              'chain_iter_mid', 'anyof_iter_first', 'anyof_iter_last',
              'iterable_validators', 'anyof_of_chain', 'chain_of_anyof',
              'iterable_nullable', 'chain_two_limiters']
DATA_SHAPES = ['dict', 'dictdict', 'list', 'listdict', 'dictlist']


def host_decl(name):
    from yaql.language import yaqltypes as T
    strs = (str,)
    return {
        'iterable': lambda: T.Iterable(),
        'iterator': lambda: T.Iterator(),
        'chain_iter_first': lambda: T.Chain(T.Iterable(), T.NotOfType(strs)),
        'chain_iter_last': lambda: T.Chain(T.NotOfType(strs), T.Iterable()),
        'chain_iter_mid': lambda: T.Chain(T.NotOfType(strs), T.Iterator(),
                                          T.NotOfType(dict)),
        'anyof_iter_first': lambda: T.AnyOf(T.Iterable(), T.String()),
        'anyof_iter_last': lambda: T.AnyOf(T.String(), T.Integer(),
                                           T.Iterable()),
        'iterable_validators': lambda: T.Iterable(
            validators=[lambda v: True]),
        'anyof_of_chain': lambda: T.AnyOf(
            T.Chain(T.Iterable(), T.NotOfType(strs)), T.Integer()),
        'chain_of_anyof': lambda: T.Chain(
            T.AnyOf(T.Iterator(), T.String()), T.NotOfType(dict)),
        'iterable_nullable': lambda: T.Iterable(nullable=True),
        'chain_two_limiters': lambda: T.Chain(T.Iterable(), T.Iterator()),
    }[name]()


def gen_host_case(w, f, flavour, index):
    """A function of the HOST, its sequence parameter declared with the
    documented type system (plain and through the combinators), drains what
    it is given."""
    N = f.choice(NS)
    decl = HOST_DECLS[(index // 2) % len(HOST_DECLS)]
    stream = f.choice([['endless'], ['endless'], ['finite', N + 1],
                       ['finite', N], ['sized', 'tuple', N + 1],
                       ['sized', 'tuple', N], ['lib', 'sequence'],
                       ['lib', 'range', N + 1]])
    targ = lib_call(stream) if stream[0] == 'lib' else ['var', 's']
    how = w.choice(['func', 'method', 'kw'])
    if how == 'kw':
        call = {'name': 'hostDrain', 'method': False, 'args': [],
                'kwargs': {'seq': targ}}
    else:
        call = {'name': 'hostDrain', 'method': how == 'method',
                'args': [targ], 'kwargs': {}}
    case = {'family': 'limit', 'flavour': flavour, 'N': N, 'Q': -1,
            'target': ['host:' + decl, ['pos', 0], -1], 'stream': stream,
            'call': call, 'wrap': w.choice(['none', 'none', 'listexpr']),
            'convert_output': True, 'host_decl': decl,
            'host_lazy': w.random() < 0.3}
    if stream[0] in ('endless', 'finite') and w.random() < 0.25:
        case['data_shape'] = w.choice(DATA_SHAPES)
    return case


def gen_lambda_result_case(w, f, flavour, index):
    """The lazy sequence reaches the library function as the RESULT of a
    lambda (producer / selector), not as a declared argument."""
    targets = synth.lambda_targets(flavour)
    ei, slot = targets[(index // 2) % len(targets)]
    e = synth.inventory(flavour)[ei]
    N = f.choice(NS)
    stream = f.choice([['endless'], ['endless'], ['finite', N + 1],
                       ['finite', N]])
    call = synth.synth_call(w, flavour, (ei, slot), ['lam', '$s'])
    # boolean options (depthFirst, decycle ...): enumerate the combinations
    # over the visits of this target instead of drawing them
    bools = [(i, p) for i, p in enumerate(e['positional'])
             if 'bool' in p['accepts'] and len(p['accepts']) <= 2]
    combo = (index // (2 * len(targets))) + w.randrange(2)
    for bi, (i, p) in enumerate(bools):
        if len(call['args']) > i:
            call['args'] = call['args'][:i]
        call['kwargs'][p['alias']] = ['lit', bool((combo >> bi) & 1)]
    return {'family': 'limit', 'flavour': flavour, 'N': N, 'Q': -1,
            'target': [e['name'], slot, ei], 'stream': stream, 'call': call,
            'wrap': w.choice(['none', 'none', 'toList', 'len', 'first']),
            'convert_output': True, 'via_lambda': True}


def lib_call(stream):
    k = stream[1]
    if k == 'sequence':
        return ['call', {'name': 'sequence', 'method': False, 'args': [],
                         'kwargs': {}}]
    if k == 'cycle':
        return ['call', {'name': 'cycle', 'method': True,
                         'args': [['list', [['lit', 1], ['lit', 2]]]],
                         'kwargs': {}}]
    if k == 'repeat':
        return ['call', {'name': 'repeat', 'method': True,
                         'args': [['lit', 5]], 'kwargs': {}}]
    if k == 'generate':
        return ['call', {'name': 'generate', 'method': False,
                         'args': [['lit', 0], ['lam', 'true'],
                                  ['lam', '$ + 1']], 'kwargs': {}}]
    if k == 'range':
        return ['call', {'name': 'range', 'method': False,
                         'args': [['lit', stream[2]]], 'kwargs': {}}]
    raise core.HarnessError(stream)


NESTED = ["$nest", "$nest.x", "[$nest]", "$nest.values()", "$nestl",
          "$nestl.first()", "$nestl.where(true)", "{a => $nest}",
          "$nestl.select($)", "$recsq.groupBy($.k, $.v)",
          "$recsq.groupBy($.k)", "$nest.items()", "$nestl.toList()"]


def gen_quota_case(w, f):
    if w.random() < 0.12:
        return {'family': 'nested_quota', 'Q': f.choice([500, 1000, 2000]),
                'expr': w.choice(NESTED), 'N': f.choice([-1, -1, 100000])}
    a = w.choice(['a', 'ab', 'abcabcabc', 'a' * 40, u'é' * 30,
                  u'中' * 25, u'\U0001F600' * 12, 'a' * 150, 'ba' * 300])
    b = w.choice(['b', 'xyz', u'ü' * 10, 'b' * 60, 'a' * 500])
    if f.random() < 0.6:
        # quota just above the operands: any growth crosses it
        Q = max(sys.getsizeof(a), sys.getsizeof(b)) + f.choice([1, 8, 40, 200])
    else:
        Q = f.choice([200, 500, 1000, 2000, 5000, 20000])
    return {'family': 'quota', 'Q': Q, 'expr': w.choice(GROW), 'a': a, 'b': b,
            'n': w.choice([1, 2, 3, 5, 10, 40, 100, 1000]),
            'l': list(range(w.choice([0, 1, 2, 5, 12, 20, 60, 200]))),
            'N': f.choice([-1, -1, 100])}


# ---------------------------------------------------------------------------
# execution
# ---------------------------------------------------------------------------

def wrap_spec(wrap, call):
    c = ['call', call]
    if wrap == 'none':
        return call

    def m(name, *extra):
        return {'name': name, 'method': True, 'args': [c] + list(extra),
                'kwargs': {}}
    if wrap == 'toList':
        return m('toList')
    if wrap == 'len':
        return m('len')
    if wrap == 'first':
        return m('first', ['lit', None])
    if wrap == 'wherefalsefirst':
        inner = ['call', m('where', ['lam', 'false'])]
        return {'name': 'first', 'method': True,
                'args': [inner, ['lit', None]], 'kwargs': {}}
    if wrap == 'listexpr':
        return {'name': '#list', 'method': False, 'args': [c], 'kwargs': {}}
    if wrap == 'listlist':
        return {'name': '#list', 'method': False, 'args': [
            ['call', {'name': '#list', 'method': False, 'args': [c],
                      'kwargs': {}}]], 'kwargs': {}}
    if wrap == 'dictexpr':
        return {'name': '#map', 'method': False,
                'args': [['rule', 'a', c]], 'kwargs': {}}
    if wrap == 'dictkey':
        # the collection ends up as a KEY of the result (hashable when it is
        # a tuple and the engine keeps tuples)
        return {'name': '#map', 'method': False,
                'args': [['rulex', c, ['lit', 1]]], 'kwargs': {}}
    if wrap == 'dictkeylist':
        tl = ['call', m('toList')]
        return {'name': '#map', 'method': False,
                'args': [['rulex', tl, ['lit', 1]]], 'kwargs': {}}
    if wrap == 'setof':
        # the collection as a MEMBER of a set (kept as a tuple by engines
        # that do not convert tuples)
        return {'name': 'set', 'method': False, 'args': [c], 'kwargs': {}}
    if wrap == 'setoflist':
        return {'name': 'set', 'method': False,
                'args': [['call', m('toList')]], 'kwargs': {}}
    if wrap == 'dictitems':
        d = ['call', {'name': '#map', 'method': False,
                      'args': [['rule', 'a', ['call', m('toList')]]],
                      'kwargs': {}}]
        return {'name': 'items', 'method': True, 'args': [d], 'kwargs': {}}
    if wrap == 'listset':
        inner = ['call', {'name': 'set', 'method': False,
                          'args': [['call', m('toList')]], 'kwargs': {}}]
        return {'name': '#list', 'method': False,
                'args': [['lit', 1], inner], 'kwargs': {}}
    if wrap == 'selectpair':
        return m('select', ['lam', '[$, [$, $]]'])
    raise core.HarnessError(wrap)


def make_stream(stream, N, registry, name='s'):
    from yaql.language import utils
    k = stream[0]
    budget = 50 * (N + 1)
    if k == 'endless':
        s = seams.SimSource(name, lambda i: i, None, budget=budget)
        registry.append(s)
        return s
    if k == 'endless_empties':
        # an endless stream whose items are empty iterators: flattening it
        # produces no output at all
        s = seams.SimSource(name, lambda i: iter(()), None, budget=budget)
        registry.append(s)
        return s
    if k == 'endless_hinted':
        s = seams.HintedSource(name, lambda i: i, None, budget=budget)
        s.hint = stream[1]
        registry.append(s)
        return s
    if k == 'finite':
        s = seams.SimSource(name, lambda i: i, stream[1], budget=budget)
        registry.append(s)
        return s
    if k == 'sized':
        n = stream[2]
        if stream[1] == 'tuple':
            return tuple(range(n))
        if stream[1] == 'fset':
            return frozenset(range(n))
        return utils.FrozenDict(('k%d' % i, i) for i in range(n))
    return None


def max_collection(v, depth=0):
    """largest collection size at any depth of a returned value"""
    from yaql.language import utils
    if depth > 12:
        return 0
    if isinstance(v, (list, tuple, set, frozenset)):
        return max([len(v)] + [max_collection(x, depth + 1) for x in v])
    if isinstance(v, (dict, utils.FrozenDict)):
        m = len(v)
        for k, x in v.items():
            m = max(m, max_collection(k, depth + 1), max_collection(x, depth + 1))
        return m
    return 0


def cap_address_space():
    if not _state.get('rlimit'):
        import resource
        soft, hard = resource.getrlimit(resource.RLIMIT_AS)
        cap = 6 * 1024 ** 3
        if hard == resource.RLIM_INFINITY or cap < hard:
            resource.setrlimit(resource.RLIMIT_AS, (cap, hard))
        _state['rlimit'] = True


def execute(case, stats):
    cap_address_space()
    install_payload_monitor()
    fam = case['family']
    if fam == 'limit':
        return exec_limit(case, stats)
    if fam == 'quota':
        return exec_quota(case, stats)
    if fam == 'nested_quota':
        return exec_nested_quota(case, stats)
    return exec_prealloc(case, stats)


def classify(fn):
    """run fn under the call-event budget; -> (kind, value)"""
    from yaql.language import exceptions as E
    import os
    prefix = os.path.join(core.repo_root(), 'yaql') + os.sep
    _mon['calls'] = 0
    old = sys.gettrace()
    sys.settrace(call_tracer(prefix))
    try:
        try:
            return 'ok', fn()
        except E.CollectionTooLargeException as e:
            return 'too_large', e
        except E.MemoryQuotaExceededException as e:
            return 'quota', e
        except core.SimBudgetExceeded as e:
            return 'budget', e
        except MemoryError as e:
            return 'memoryerror', e
        except RecursionError as e:
            return 'exc', e
        except Exception as e:
            return 'exc', e
    finally:
        sys.settrace(old)


def _register_host(ctx, decl, lazy):
    from yaql.language import specs

    @specs.parameter('seq', host_decl(decl))
    @specs.name('hostDrain')
    def host_drain(seq):
        n = 0
        if seq is None or isinstance(seq, (str, int)):
            return -1
        for _ in seq:
            n += 1
        return n

    @specs.parameter('seq', host_decl(decl))
    @specs.name('hostDrain')
    def host_drain_lazy(seq):
        if seq is None or isinstance(seq, (str, int)):
            return iter(())
        return (x for x in seq)
    fn = host_drain_lazy if lazy else host_drain
    ctx.register_function(fn)
    ctx.register_function(specs.get_function_definition(
        fn, name='hostDrain', method=True))


def _dot(a, key):
    return ['call', {'name': '#operator_.', 'method': False,
                     'args': [a, ['kw', key]], 'kwargs': {}}]


def _idx(a, i):
    return ['call', {'name': '#indexer', 'method': False,
                     'args': [a, ['lit', i]], 'kwargs': {}}]


def _data_expr(shape):
    d = ['var', '']
    if shape == 'dict':
        return _dot(d, 'stream')
    if shape == 'dictdict':
        return _dot(_dot(d, 'inner'), 'stream')
    if shape == 'list':
        return _idx(d, 1)
    if shape == 'listdict':
        return _dot(_idx(d, 0), 'stream')
    if shape == 'dictlist':
        return _idx(_dot(d, 'streams'), 0)
    raise core.HarnessError(shape)


def _data_around(s, shape):
    if shape == 'dict':
        return {'name': 'x', 'stream': s}
    if shape == 'dictdict':
        return {'name': 'x', 'inner': {'stream': s, 'n': 1}}
    if shape == 'list':
        return ['x', s]
    if shape == 'listdict':
        return [{'stream': s}, 'x']
    if shape == 'dictlist':
        return {'streams': [s], 'name': 'x'}
    raise core.HarnessError(shape)


def _nest_arg(spec, nest):
    """the call with its `$s` argument one level down"""
    v = ['var', 's']
    lst = lambda *a: ['list', list(a)]       # noqa: E731
    repl = {
        'list': lst(v),
        'listlist': lst(lst(v)),
        'list2': lst(['lit', 1], v),
        'listlast': lst(['lit', 1], ['lit', 2], lst(v)),
        'dictvalues': ['call', {
            'name': 'values', 'method': True, 'kwargs': {},
            'args': [['call', {'name': '#map', 'method': False, 'kwargs': {},
                               'args': [['rule', 'a', v]]}]]}],
    }[nest]
    out = dict(spec)
    out['args'] = [repl if x == v else x for x in spec['args']]
    out['kwargs'] = {k: (repl if x == v else x)
                     for k, x in spec.get('kwargs', {}).items()}
    return out


def _via_data(spec, shape):
    """the call with every `$s` replaced by the path into the data"""
    def a(x):
        k = x[0]
        if k == 'var' and x[1] == 's':
            return _data_expr(shape)
        if k == 'rule':
            return ['rule', x[1], a(x[2])]
        if k == 'rulex':
            return ['rulex', a(x[1]), a(x[2])]
        if k == 'call':
            return ['call', _via_data(x[1], shape)]
        if k == 'list':
            return ['list', [a(y) for y in x[1]]]
        return x
    out = dict(spec)
    out['args'] = [a(x) for x in spec['args']]
    out['kwargs'] = {k: a(v) for k, v in spec.get('kwargs', {}).items()}
    return out


def exec_limit(case, stats):
    flavour = case['flavour']
    N, Q = case['N'], case['Q']
    opts = {'yaql.limitIterators': N,
            'yaql.convertOutputData': bool(case.get('convert_output', True))}
    if Q > 0:
        opts['yaql.memoryQuota'] = Q
    call = case['call']
    shape_d = case.get('data_shape')
    if shape_d:
        call = _via_data(call, shape_d)
    if case.get('arg_nest'):
        call = _nest_arg(call, case['arg_nest'])
    spec = wrap_spec(case['wrap'], call)
    try:
        st = synth.build_statement(flavour, spec, opts, case.get('derive'))
    except Exception:
        stats.inc('status.unbuildable')
        return []
    registry = []
    undo = seams.patch_itertools(50 * (N + 1), registry)
    shape = case.get('ctx_shape', 'plain')
    if shape == 'plain':
        ctx = synth.chain_contexts(flavour).create_child_context()
    else:
        # the host evaluated something in a context of its own first and
        # then composed that context with the library (three steps)
        from yaql.language import contexts
        bare = contexts.Context()
        try:
            synth.chain_engine(flavour)('1').evaluate(context=bare)
        except Exception:
            pass
        if shape == 'linked_bare':
            ctx = contexts.LinkedContext(synth.chain_contexts(flavour),
                                         bare).create_child_context()
        else:
            ctx = contexts.MultiContext(
                [bare, synth.chain_contexts(flavour)]).create_child_context()
    for k, v in synth.std_vars().items():
        ctx[k] = v
    s = make_stream(case['stream'], N, registry)
    data = None
    if s is not None:
        if shape_d:
            data = _data_around(s, shape_d)
        else:
            ctx['s'] = s
    if case.get('stream2'):
        # a second stream that delivers the same items as the first
        ctx['s2'] = make_stream(case['stream'], N, registry, 's2')
    if case.get('host_decl'):
        _register_host(ctx, case['host_decl'], case.get('host_lazy'))
    _mon['Q'] = Q
    _mon['over'] = []
    _mon['ran'] = set()

    def run():
        if data is not None:
            r = st.evaluate(data=data, context=ctx)
        else:
            r = st.evaluate(context=ctx)
        if not opts['yaql.convertOutputData']:
            # the host consumes an unfinalised lazy result through the
            # engine's own limiter, as the finalizer would
            from yaql.language import utils
            if utils.is_iterator(r):
                r = list(utils.limit_iterable(r, N))
        return r
    try:
        kind, val = classify(run)
    finally:
        undo()
        _mon['Q'] = -1
        ran = _mon['ran']
        _mon['ran'] = None
    viols = []
    pulls = [(x.name, x.pulls) for x in registry]
    detail = {'call': synth.describe(spec), 'N': N, 'Q': Q,
              'stream': case['stream'], 'outcome': kind,
              'error': (type(val).__name__ + ': ' + str(val)[:200])
              if isinstance(val, BaseException) else None,
              'pulls': pulls, 'target': case['target'][:2],
              'flavour': flavour}
    tname = case['target'][0]
    for x in registry:
        if x.pulls > N + 1:
            viols.append({'key': 'C08:pulled-more-than-N+1:%s' % tname,
                          'clause': 'no evaluation pulls more than N+1 items '
                                    'from a lazy sequence handed to a library '
                                    'function', 'detail': detail})
            break
    endless = case['stream'][0] in ('endless', 'endless_empties',
                                    'endless_hinted', 'lib') or any(
        x.length is None or x.length > N for x in registry)
    if kind in ('budget', 'memoryerror') and not viols and not endless:
        # bounded input, step budget exhausted: work that is legitimately
        # super-linear in N (nested growth) - not a verdict
        stats.inc('indeterminate.slow_without_endless_source')
    if kind in ('budget', 'memoryerror') and not viols and endless:
        viols.append({'key': 'C08:does-not-terminate:%s' % tname,
                      'clause': 'evaluations over endless generators '
                                'terminate (step budget exhausted)',
                      'detail': detail})
    if kind == 'ok' and opts['yaql.convertOutputData']:
        m = max_collection(val)
        if m > N:
            detail['largest_collection'] = m
            viols.append({'key': 'C08:result-collection-larger-than-N:%s' % tname,
                          'clause': 'no collection with more than N elements '
                                    'at any depth of a result',
                          'detail': detail})
    if kind == 'ok' and Q > 0 and isinstance(val, MEASURED) and \
            sys.getsizeof(val, 0) > Q and not opts['yaql.convertOutputData']:
        detail['result_size'] = sys.getsizeof(val, 0)
        viols.append({'key': 'C08:result-over-quota:%s' % tname,
                      'clause': 'no value larger than Q is returned',
                      'detail': detail})
    if _mon['over']:
        detail['over_quota_args'] = _mon['over'][:3]
        viols.append({'key': 'C08:argument-over-quota:%s' % _mon['over'][0][0],
                      'clause': 'no value larger than Q is passed on to '
                                'another function', 'detail': detail})
    # statistics
    stats.inc('evaluations')
    stats.inc('outcome.' + kind)
    stats.inc('steps.pulls', sum(p for _, p in pulls))
    stats.inc('steps.call_events', _mon['calls'])
    sk = case['stream'][0] + (':' + str(case['stream'][1])
                              if case['stream'][0] in ('lib', 'sized') else '')
    stats.inc('fault.stream_' + sk)
    if shape_d:
        stats.inc('fault.stream_inside_data_' + shape_d)
    if case.get('arg_nest'):
        stats.inc('fault.stream_nested_in_argument_' + case['arg_nest'])
    if case.get('derive'):
        stats.inc('fault.engine_derived_with_other_options')
    if case.get('stream2'):
        stats.inc('fault.two_equal_streams')
    if case.get('host_decl'):
        stats.inc('host_decl.' + case['host_decl'])
    if any(p == N + 1 for _, p in pulls):
        stats.inc('probe.limit_wrapper_fired_at_exactly_N+1')
    if kind == 'too_large':
        stats.inc('probe.CollectionTooLargeException')
    pulled = any(p > 0 for _, p in pulls)
    for name in ran:
        stats.add('payloads_run', name)
    if ran and (pulled or case['stream'][0] == 'sized'):
        stats.add('nontrivial', core.h64(flavour, case['target'][0],
                                         core.jdump(case['target'][1]), sk))
        stats.add('targets_reached', core.h64(flavour, case['target'][0],
                                              core.jdump(case['target'][1])))
        stats.sample('sample', {k: detail[k] for k in (
            'call', 'N', 'stream', 'outcome', 'pulls', 'flavour')}, 3)
    return viols


def quota_engine(Q, N):
    from yaql.language import contexts  # noqa: F401
    key = ('qe', Q, N)
    e = _state.get(key)
    if e is None:
        base = synth.chain_engine('default')
        opts = {'yaql.memoryQuota': Q, 'yaql.convertOutputData': False}
        if N >= 0:
            opts['yaql.limitIterators'] = N
        e = _state[key] = base.copy(opts)
    return e


def exec_quota(case, stats):
    Q = case['Q']
    engine = quota_engine(Q, case.get('N', -1))
    st = _state.setdefault('qst', {}).get((case['expr'], Q, case.get('N', -1)))
    if st is None:
        st = engine(case['expr'].replace('@LIT@', "'%s'" % ('y' * (Q + 100))))
        _state['qst'][(case['expr'], Q, case.get('N', -1))] = st
    ctx = synth.chain_contexts('default').create_child_context()
    ctx['a'] = case['a']
    ctx['b'] = case['b']
    ctx['n'] = case['n']
    ctx['l'] = tuple(case['l'])
    # host values that are over the quota before anything is computed
    ctx['big'] = 'x' * (Q + 100)
    ctx['bigl'] = tuple(range(Q // 8 + 50))
    ctx['bigi'] = 1 << (8 * (Q + 100))
    _mon['Q'] = Q
    _mon['over'] = []
    _mon['ran'] = set()

    def run():
        from yaql.language import utils
        r = st.evaluate(context=ctx)
        if utils.is_iterator(r):
            # drain a lazy result the way a host would, but do not measure
            # the container this harness builds (yaql never returned it)
            for _ in r:
                pass
            r = None
        return r
    try:
        kind, val = classify(run)
    finally:
        _mon['Q'] = -1
        _mon['ran'] = None
    viols = []
    detail = {'expr': case['expr'], 'Q': Q, 'a': case['a'], 'b': case['b'],
              'n': case['n'], 'len_l': len(case['l']), 'outcome': kind,
              'error': (type(val).__name__ + ': ' + str(val)[:200])
              if isinstance(val, BaseException) else None}
    if kind == 'ok' and isinstance(val, MEASURED) and sys.getsizeof(val, 0) > Q:
        detail['result_size'] = sys.getsizeof(val, 0)
        detail['result_type'] = type(val).__name__
        viols.append({'key': 'C08:quota-result-over-Q',
                      'clause': 'no value whose own size exceeds Q is '
                                'returned', 'detail': detail})
    if _mon['over']:
        detail['over_quota_args'] = _mon['over'][:3]
        viols.append({'key': 'C08:quota-argument-over-Q:%s' % _mon['over'][0][0],
                      'clause': 'no value whose own size exceeds Q is passed '
                                'on to another function', 'detail': detail})
    if kind in ('budget', 'memoryerror'):
        viols.append({'key': 'C08:quota-does-not-terminate',
                      'clause': 'termination', 'detail': detail})
    stats.inc('evaluations')
    stats.inc('quota_outcome.' + kind)
    stats.inc('steps.call_events', _mon['calls'])
    if kind == 'quota':
        stats.inc('probe.MemoryQuotaExceededException')
        stats.inc('fault.value_grown_past_quota')
    stats.add('nontrivial', core.h64('quota', case['expr'], Q, kind))
    stats.sample('quota_sample', {k: detail[k] for k in ('expr', 'Q', 'n',
                                                         'outcome')}, 2)
    return viols


def nested_sizes(v, depth=0):
    """(size, type) of every measured value strictly inside v"""
    from yaql.language import utils
    out = []
    if depth > 8:
        return out
    if isinstance(v, (list, tuple, set, frozenset)):
        for x in v:
            if isinstance(x, MEASURED) or isinstance(x, utils.FrozenDict):
                out.append((sys.getsizeof(x, 0), type(x).__name__))
            out.extend(nested_sizes(x, depth + 1))
    elif isinstance(v, (dict, utils.FrozenDict)):
        for x in list(v.keys()) + list(v.values()):
            if isinstance(x, MEASURED) or isinstance(x, utils.FrozenDict):
                out.append((sys.getsizeof(x, 0), type(x).__name__))
            out.extend(nested_sizes(x, depth + 1))
    return out


def exec_nested_quota(case, stats):
    """Host data whose NESTED members are several times over the quota while
    the outer container is small; output conversion on.  The result is walked
    by the finalizer: no member that large may come back.  Slack: a converted
    list may be up to ~12% + 56 bytes larger than the tuple that was
    measured, so only members over 2 * Q count."""
    from yaql.language import utils
    Q = case['Q']
    opts = {'yaql.memoryQuota': Q}
    if case.get('N', -1) >= 0:
        opts['yaql.limitIterators'] = case['N']
    engine = synth.chain_engine('default').copy(opts)
    key = ('nq', case['expr'], Q, case.get('N', -1))
    st = _state.setdefault('qst', {}).get(key)
    if st is None:
        st = _state['qst'][key] = engine(case['expr'])
    big = tuple(range(Q // 2))             # ~4 Q bytes
    bigs = 'z' * (4 * Q)
    ctx = synth.chain_contexts('default').create_child_context()
    ctx['nest'] = utils.FrozenDict({'x': big, 'y': 1, 's': bigs})
    ctx['nestl'] = ((1, 2), big, ('a', bigs))
    ctx['recsq'] = tuple(utils.FrozenDict({'k': i % 2, 'v': bigs[:Q // 20]})
                         for i in range(120))
    _mon['Q'] = -1
    kind, val = classify(lambda: st.evaluate(context=ctx))
    viols = []
    detail = {'expr': case['expr'], 'Q': Q, 'outcome': kind,
              'error': (type(val).__name__ + ': ' + str(val)[:160])
              if isinstance(val, BaseException) else None}
    if kind == 'ok':
        over = [x for x in nested_sizes(val) if x[0] > 2 * Q + 100]
        if isinstance(val, MEASURED) and sys.getsizeof(val, 0) > 2 * Q + 100:
            over.append((sys.getsizeof(val, 0), type(val).__name__))
        if over:
            detail['over_quota_members'] = over[:4]
            viols.append({'key': 'C08:nested-result-member-over-quota',
                          'clause': 'no value whose own size exceeds Q is '
                                    'returned (members of the result '
                                    'included)', 'detail': detail})
    stats.inc('evaluations')
    stats.inc('nested_quota_outcome.' + kind)
    stats.inc('fault.nested_host_value_over_quota')
    stats.add('nontrivial', core.h64('nq', case['expr'], Q, kind))
    return viols


def exec_prealloc(case, stats):
    import tracemalloc
    engine = quota_engine(case['Q'], -1)
    st = engine(case['expr'])
    ctx = synth.chain_contexts('default').create_child_context()
    ctx['a'] = case['a']
    ctx['l'] = tuple(case['l'])
    ctx['n'] = case['n']
    tracemalloc.start()
    try:
        try:
            kind, val = classify(lambda: st.evaluate(context=ctx))
        finally:
            cur, peak = tracemalloc.get_traced_memory()
    finally:
        tracemalloc.stop()
    viols = []
    detail = {'expr': case['expr'], 'a': case['a'], 'l': case['l'],
              'n': case['n'], 'Q': case['Q'], 'outcome': kind,
              'peak_bytes': peak}
    if kind != 'quota' or peak > 5000000:
        viols.append({'key': 'C08:repetition-allocates-before-refusing',
                      'clause': 'sequence/string repetition refuses before '
                                'allocating', 'detail': detail})
    stats.inc('evaluations')
    stats.inc('fault.huge_repetition_under_small_quota')
    stats.max('prealloc_peak_bytes', peak)
    stats.add('nontrivial', core.h64('prealloc', case['expr'],
                                     core.jdump(case['l']), case['a']))
    return viols


# ---------------------------------------------------------------------------

def shrink_candidates(case):
    def mk(**kw):
        c = {k: v for k, v in case.items() if k != 'shrink'}
        c.update(kw)
        return c
    fam = case['family']
    if fam == 'limit':
        if case['wrap'] != 'none':
            yield mk(wrap='none')
        if case.get('ctx_shape', 'plain') != 'plain':
            yield mk(ctx_shape='plain')
        if case['Q'] != -1:
            yield mk(Q=-1)
        if not case.get('convert_output', True):
            yield mk(convert_output=True)
        for n in (0, 1, 2, 3):
            if case['N'] > n:
                st = list(case['stream'])
                if st[0] in ('finite',):
                    st[1] = n + (st[1] - case['N'])
                    if st[1] < 0:
                        continue
                elif st[0] == 'sized':
                    st[2] = n + (st[2] - case['N'])
                    if st[2] < 0:
                        continue
                yield mk(N=n, stream=st)
        call = case['call']
        if call.get('kwargs'):
            yield mk(call=dict(call, kwargs={}))
    elif fam == 'quota':
        for n in (1, 2, 3):
            if case['n'] > n:
                yield mk(n=n)
        if len(case['l']) > 1:
            yield mk(l=case['l'][:len(case['l']) // 2])
        for fld in ('a', 'b'):
            if len(case[fld]) > 1:
                yield mk(**{fld: case[fld][:len(case[fld]) // 2]})
        if case.get('N', -1) != -1:
            yield mk(N=-1)


def match_known(case, viol, entry):
    m = entry.get('match', {})
    return bool(m) and m.get('key') == viol['key']


def coverage(stats, params):
    return {
        'evaluations': stats.n('evaluations'),
        'distinct_nontrivial': stats.distinct('nontrivial'),
        'rule': 'limit family: case = (function, parameter position from the '
                'introspected registry, stream kind, N, Q, consumer / nesting '
                'wrapper, other arguments seeded); distinct = distinct '
                '(chain, function, position, stream kind); non-trivial = a '
                'library payload really ran and the source was pulled at '
                'least once (or a sized collection was passed). quota '
                'family: distinct (growth expression, Q, outcome). '
                'prealloc: distinct (expression, operand)',
        'samples': (stats.samples.get('sample', []) +
                    stats.samples.get('quota_sample', [])) or [{'note': 'none'}],
        'targets_reached': stats.distinct('targets_reached'),
        'distinct_payloads_run': stats.distinct('payloads_run'),
        'outcomes': stats.counters('outcome.'),
        'quota_outcomes': stats.counters('quota_outcome.'),
        'nested_quota_outcomes': stats.counters('nested_quota_outcome.'),
        'status': stats.counters('status.'),
        'indeterminate': stats.counters('indeterminate.'),
        'simulated_time_steps': stats.counters('steps.'),
        'faults_fired': stats.counters('fault.'),
        'host_function_declarations': stats.counters('host_decl.'),
        'probes': stats.counters('probe.'),
        'max': stats.counters('max:'),
        'real_components': ['every registered function of the default and '
                            'legacy context chains (payloads wrapped by a '
                            'measuring shim), yaqltypes (incl. AnyOf / Chain '
                            '/ NotOfType around host-declared parameters), '
                            'runner, utils limit_iterable / '
                            'limit_memory_usage / convert_input_data, '
                            'finalizer'],
        'stubbed_components': ['host streams (SimSource)', 'itertools '
                               'count/cycle/repeat inside queries/legacy '
                               '(budgeted SimSource proxies)',
                               'wall-clock watchdog -> logical step budgets'],
        'exhaustive': False,
    }


def probe_warnings(stats):
    out = []
    for p in ('probe.limit_wrapper_fired_at_exactly_N+1',
              'probe.MemoryQuotaExceededException'):
        if stats.n(p) == 0:
            out.append(p)
    return out
