"""C06 - resolution does not depend on registration or iteration order.

The nondeterminism simulated here is the enumeration order of the
identity-hashed sets that hold the overloads of a name.  The simulator owns
it three ways: (A) the order of every layer handed to choose_overload is put
in every permutation (S-order seam, exhaustive per family up to 720 orders);
(B) the family is registered in every/sampled order into fresh contexts with
the natural set order driven by simulator-assigned identity hashes (S-hash);
(C) the same layer is reached through Context / MultiContext / LinkedContext.
Oracle (metamorphic): the outcome - tag of the payload that ran, or the
exception class - is the same for all orders.
"""
import itertools
import random

from sim import core, seams, synth

ID = 'C06'
LEVEL = 'fault_enumeration'
ASSUMPTIONS = [
    'choose_overload only sees what ContextBase.collect_functions returns '
    '(the S-order seam sits on that funnel); natural set order is a function '
    'of FunctionDefinition.__hash__ (owned by the S-hash seam) and of the '
    'insertion sequence',
    'families are synthetic overload sets over a small subtype lattice plus '
    'every multi-overload name of the real default and legacy context chains',
    'exhaustive: true would only refer to the permutations of one family; '
    'the family space itself is sampled',
]

TIERS = {
    'quick': {'runs': 6400, 'chunk': 50, 'timeout_s': 900, 'max_perms': 720,
              'stdlib_share': 0.25},
    'thorough': {'runs': 120000, 'chunk': 500, 'timeout_s': 6 * 3600,
                 'max_perms': 720, 'stdlib_share': 0.2,
                 'chunk_timeout_s': 3000},
}

_state = {}


# ---------------------------------------------------------------------------
# lattice and values
# ---------------------------------------------------------------------------

class A(object):
    ready = True        # what a value-dependent validator of the host looks at


class B(A):
    pass


class C(A):
    pass


class D(B, C):
    pass


class E(object):
    pass


class F(D, E):
    pass


LATTICE = {'A': A, 'B': B, 'C': C, 'D': D, 'E': E, 'F': F}


def type_from_spec(ts):
    """ts: ['py', clsname, nullable] | ['int'] | ['str'] | ['obj'] |
    ['lambda'] | ['iter'] | ['num'] | ['seq'] -> yaql type object."""
    from yaql.language import yaqltypes as T
    k = ts[0]
    if k == 'py':
        return T.PythonType(LATTICE[ts[1]], bool(ts[2]))
    if k == 'pyv':
        # a host type whose validator looks at the VALUE, not at its class
        return T.PythonType(LATTICE[ts[1]], False,
                            validators=[lambda v: bool(v.ready)])
    if k == 'int':
        return T.Integer()
    if k == 'pyint':
        return T.PythonType(int, False)
    if k == 'num':
        return T.Number()
    if k == 'str':
        return T.String()
    if k == 'obj':
        return T.PythonType(object, True)
    if k == 'lambda':
        return T.Lambda()
    if k == 'iter':
        return T.Iterable()
    if k == 'seq':
        return T.Sequence()
    raise core.HarnessError('type spec %r' % (ts,))


def value_from_spec(vs):
    k = vs[0]
    if k in LATTICE:
        v = LATTICE[k]()
        if len(vs) > 1:
            v.ready = bool(vs[1])
        return v
    if k == 'int':
        return vs[1]
    if k == 'str':
        return vs[1]
    if k == 'bool':
        return bool(vs[1])
    if k == 'none':
        return None
    if k == 'float':
        return 1.5
    if k == 'list':
        return (1, 2)
    raise core.HarnessError('value spec %r' % (vs,))


TYPE_POOL = [['py', 'A', 0], ['py', 'A', 0], ['py', 'B', 0], ['py', 'B', 0],
             ['py', 'C', 0], ['py', 'C', 0], ['py', 'D', 0], ['py', 'E', 0],
             ['py', 'A', 1], ['py', 'B', 1], ['pyv', 'B'], ['pyv', 'D'],
             ['int'], ['pyint'], ['num'],
             ['str'], ['obj'], ['obj'], ['iter'], ['seq']]
VALUE_POOL = [['A'], ['B'], ['C'], ['D'], ['D'], ['D'], ['E'], ['F'], ['F'],
              ['D', 0], ['D', 1], ['F', 0], ['B', 0],
              ['int', 1],
              ['str', 'x'], ['bool', 1], ['none'], ['float'], ['list']]


# ---------------------------------------------------------------------------
# family construction
# ---------------------------------------------------------------------------

def build_fd(ov, tag, world=None):
    """ov: {'params': [[name, typespec, default?]...], 'varargs': typespec|None,
    'kind': 'function'|'method'|'extension', 'no_kwargs': bool}
    world: what the overloads registered into one host share (the Python
    callable of 'shared_payload' overloads)."""
    from yaql.language import specs
    if ov.get('shared_payload'):
        fn = _shared_payload(len(ov['params']), world)
        if ov.get('via_ptf'):
            # the typing rule is passed at registration time
            types = {p[0]: type_from_spec(p[1]) for p in ov['params']}
            fd = specs.get_function_definition(
                fn, name='f', parameter_type_func=lambda n: types.get(n))
        else:
            fd = specs.get_function_definition(fn, name='f')
            for p in ov['params']:
                fd.set_parameter(p[0], type_from_spec(p[1]), overwrite=True)
        fd.no_kwargs = bool(ov.get('no_kwargs'))
        if ov['kind'] == 'method':
            fd.is_method, fd.is_function = True, False
        elif ov['kind'] == 'extension':
            fd.is_method, fd.is_function = True, True
        return fd
    names = []
    for p in ov['params']:
        if len(p) > 2 and p[2] is not None:
            names.append('%s=%r' % (p[0], p[2]))
        else:
            names.append(p[0])
    if ov.get('varargs'):
        names.append('*rest')
    src = 'def ov_%s(%s):\n    return %r\n' % (tag, ', '.join(names), tag)
    ns = {}
    exec(src, ns)
    fn = ns['ov_%s' % tag]
    plist = ov['params']
    if ov.get('decl_order'):
        # the order in which the parameter decorators are applied decides the
        # order of the definition's parameter table
        plist = [ov['params'][i] for i in ov['decl_order']
                 if i < len(ov['params'])]
    for p in plist:
        fn = specs.parameter(p[0], type_from_spec(p[1]))(fn)
    if ov.get('varargs'):
        fn = specs.parameter('rest', type_from_spec(ov['varargs']))(fn)
    if ov.get('no_kwargs'):
        fn = specs.no_kwargs(fn)
    if ov['kind'] == 'method':
        fn = specs.method(fn)
    elif ov['kind'] == 'extension':
        fn = specs.extension_method(fn)
    fd = specs.get_function_definition(fn, name='f')
    return fd


def _shared_payload(n, world=None):
    """One Python callable per host (world): a new function object for every
    world that is built, as in a fresh process."""
    if world is None:
        world = _state
    fn = world.get(('shared', n))
    if fn is None:
        ns = {}
        exec('def ov_shared(%s):\n    return "shared"\n'
             % ', '.join('p%d' % i for i in range(n)), ns)
        fn = world[('shared', n)] = ns['ov_shared']
    return fn


def gen_family(rng):
    shape = rng.random()
    nparams = rng.choice([0, 1, 2, 2, 2, 3])
    if nparams == 0:
        # parameterless / all-default / varargs-only overloads: a call
        # without arguments matches several of them
        fam = []
        for i in range(rng.choice([2, 2, 3])):
            k = rng.choice(['none', 'default', 'varargs'])
            fam.append({'params': [['p0', ['obj'], 7]] if k == 'default' else [],
                        'varargs': ['obj'] if k == 'varargs' else None,
                        'kind': 'function', 'no_kwargs': False, 'layer': 0})
        if rng.random() < 0.3:
            fam[-1]['layer'] = 1
        return fam, 0
    kind = rng.choice(['function', 'function', 'extension', 'method'])
    lazy_pos = rng.randrange(1, nparams) if (rng.random() < 0.15 and nparams > 1) else None
    ovs = []
    if shape < 0.35:
        # the shape named in the property: one candidate more specific than
        # two (or more) mutually incomparable ones
        top = [['py', 'D', 0]] * nparams
        ovs.append(top)
        for _ in range(rng.choice([2, 2, 3])):
            ovs.append([rng.choice([['py', 'A', 0], ['py', 'B', 0],
                                    ['py', 'C', 0], ['obj']])
                        for _ in range(nparams)])
    elif shape < 0.47 and nparams >= 2:
        # lattice-typed first parameters, numeric-typed last parameter:
        # Number is declared with a TUPLE of classes, the others with a class
        lat = [['py', 'A', 0], ['py', 'B', 0], ['py', 'D', 0], ['py', 'E', 0],
               ['py', 'A', 1], ['obj']]
        numeric = [['num'], ['num'], ['obj'], ['int'], ['pyint']]
        for _ in range(rng.choice([3, 3, 4])):
            ovs.append([rng.choice(lat) for _ in range(nparams - 1)] +
                       [rng.choice(numeric)])
    elif shape < 0.55:
        # no greatest element: a chain plus candidates incomparable with it
        pool = [['py', 'A', 0], ['py', 'B', 0], ['py', 'C', 0],
                ['py', 'E', 0], ['py', 'D', 0], ['obj']]
        for _ in range(rng.choice([3, 3, 4])):
            ovs.append([rng.choice(pool) for _ in range(nparams)])
    else:
        for _ in range(rng.choice([2, 2, 3, 3, 4, 5])):
            ovs.append([rng.choice(TYPE_POOL) for _ in range(nparams)])
    family = []
    for i, types in enumerate(ovs):
        params = []
        np_i = nparams
        if rng.random() < 0.15 and nparams > 1:
            np_i = nparams - 1            # different parameter count
        for j in range(np_i):
            ts = types[j]
            if lazy_pos == j and rng.random() < 0.85:
                ts = ['lambda']
            default = None
            if j == np_i - 1 and rng.random() < 0.15 and ts[0] in ('int', 'pyint', 'num', 'obj'):
                default = 7
            params.append(['p%d' % j, ts, default])
        order = list(range(np_i))
        if np_i >= 2 and rng.random() < 0.5:
            rng.shuffle(order)
        family.append({
            'decl_order': order,
            'exclusive': rng.random() < 0.08,
            'params': params,
            'varargs': rng.choice(TYPE_POOL) if rng.random() < 0.1 else None,
            'kind': kind if rng.random() < 0.9 else rng.choice(
                ['function', 'extension', 'method']),
            'no_kwargs': rng.random() < 0.06,
            'layer': 0})
    if rng.random() < 0.12 and all(
            len(ov['params']) == nparams and not ov['varargs'] and
            all(p[2] is None for p in ov['params']) for ov in family):
        # one Python callable registered several times under one name with
        # different parameter declarations
        ptf = rng.choice([0, 1, 2])
        for ov in family:
            ov['shared_payload'] = True
            ov['via_ptf'] = bool(ptf) if ptf < 2 else rng.random() < 0.5
    # spread over layers (0 = nearest)
    nl = rng.choice([1, 1, 1, 2, 3])
    if nl > 1:
        for ov in family:
            ov['layer'] = rng.randrange(nl)
    rng.shuffle(family)
    return family, nparams


def gen_calls(rng, family, nparams):
    calls = []
    for _ in range(rng.choice([2, 3, 4])):
        n = nparams if rng.random() < 0.8 else rng.choice([0, 1, 2, 3])
        if rng.random() < 0.5:
            args = [rng.choice([['D'], ['D'], ['F'], ['F'], ['B'], ['C'],
                                ['none']])
                    for _ in range(n)]
            if n >= 2 and rng.random() < 0.4:
                args[-1] = rng.choice([['int', 1], ['float'], ['int', 0]])
        else:
            args = [rng.choice(VALUE_POOL) for _ in range(n)]
        nkw = 0
        r = rng.random()
        if r < 0.3 and n > 0:
            nkw = rng.randrange(1, n + 1) if rng.random() < 0.5 else n
        calls.append({'args': args, 'nkw': nkw,
                      'via': rng.choice(['python', 'python', 'expr']),
                      'method': rng.random() < 0.3})
    return calls


def gen_case(seeds, params, index):
    w = seeds.stream('workload')
    if w.random() < params['stdlib_share']:
        return gen_stdlib_case(seeds, w)
    family, nparams = gen_family(w)
    calls = gen_calls(w, family, nparams)
    return {'kind': 'synthetic', 'family': family, 'calls': calls,
            'sched_seed': seeds.sub('schedule'),
            'max_perms': params['max_perms']}


# ---------------------------------------------------------------------------
# executing one call under one order
# ---------------------------------------------------------------------------

def get_engine():
    e = _state.get('engine')
    if e is None:
        import yaql
        e = _state['engine'] = yaql.YaqlFactory().create()
    return e


def base_context():
    b = _state.get('base')
    if b is None:
        import yaql
        b = _state['base'] = yaql.create_context()
    return b


def make_contexts(family, fds, reg_order, structure):
    """Register the family (in reg_order) over a chain of fresh contexts on
    top of the standard library; returns the context to call in."""
    from yaql.language import contexts
    nl = 1 + max(ov['layer'] for ov in family)
    ctx = base_context().create_child_context()
    layers = []
    for _ in range(nl):
        ctx = ctx.create_child_context()
        layers.append(ctx)
    layers.reverse()            # layers[0] = nearest
    top = layers[0]
    if structure == 'plain':
        for i in reg_order:
            layers[family[i]['layer']].register_function(
                fds[i], exclusive=bool(family[i].get('exclusive')))
        return top
    if structure == 'multi':
        # layer 0 is a MultiContext of two siblings holding complementary
        # halves of layer 0's overloads
        parent = top.parent
        m1 = contexts.Context(parent)
        m2 = contexts.Context(parent)
        flip = 0
        for i in reg_order:
            if family[i]['layer'] == 0:
                (m1 if flip % 2 == 0 else m2).register_function(
                    fds[i], exclusive=bool(family[i].get('exclusive')))
                flip += 1
            else:
                layers[family[i]['layer']].register_function(
                    fds[i], exclusive=bool(family[i].get('exclusive')))
        return contexts.MultiContext([m1, m2])
    if structure == 'linked':
        for i in reg_order:
            layers[family[i]['layer']].register_function(
                fds[i], exclusive=bool(family[i].get('exclusive')))
        # a linked context proxying `top` (and its chain) with the std
        # library as own parent
        return contexts.LinkedContext(base_context(), top)
    raise core.HarnessError(structure)


def do_call(ctx, call, engine):
    from yaql.language import exceptions as E
    args = [value_from_spec(v) for v in call['args']]
    nkw = call['nkw']
    pos = args[:len(args) - nkw]
    kw = {'p%d' % (len(pos) + i): v
          for i, v in enumerate(args[len(pos):])}
    try:
        if call['via'] == 'expr':
            c2 = ctx.create_child_context()
            parts = []
            for i, v in enumerate(pos):
                c2['a%d' % i] = v
                parts.append('$a%d' % i)
            for k, v in kw.items():
                c2['k' + k] = v
                parts.append('%s => $k%s' % (k, k))
            if call['method'] and pos:
                text = '%s.f(%s)' % (parts[0], ', '.join(parts[1:]))
            else:
                text = 'f(%s)' % ', '.join(parts)
            st = _state.setdefault('stmts', {}).get(text)
            if st is None:
                st = _state['stmts'][text] = engine(text)
            r = st.evaluate(context=c2)
        elif call['method'] and pos:
            r = ctx('f', engine, receiver=pos[0])(*pos[1:], **kw)
        else:
            r = ctx('f', engine)(*pos, **kw)
        return ['ok', r if isinstance(r, str) else repr(type(r))]
    except E.YaqlException as e:
        return ['exc', type(e).__name__]
    except Exception as e:
        return ['exc!', type(e).__name__]


def family_order_seam(order_by_tag):
    """S-order callback: family layers in the given order, every other name
    canonical."""
    def cb(name, layers):
        out = []
        for layer in layers:
            lst = sorted(layer, key=seams.fd_key)
            if name == 'f':
                lst.sort(key=lambda fd: order_by_tag.get(
                    getattr(fd.payload, '__name__', ''), 1 << 30))
            out.append(lst)
        return out
    return cb


def execute(case, stats):
    if case['kind'] == 'stdlib':
        return execute_stdlib(case, stats)
    seams.OrderSeam.install()
    seams.HashSeam.install()
    engine = get_engine()
    family = case['family']
    n = len(family)
    s = random.Random(case['sched_seed'])
    world0 = {}
    fds = [build_fd(ov, 'T%d' % i, world0) for i, ov in enumerate(family)]
    tags = ['ov_T%d' % i for i in range(n)]
    viols = []
    perms_all = list(itertools.permutations(range(n)))
    if 'orders' in case:
        perms = [tuple(p) for p in case['orders']]
    elif len(perms_all) <= case.get('max_perms', 720):
        perms = perms_all
    else:
        perms = [perms_all[0]] + s.sample(perms_all, case['max_perms'] - 1)
    reg_perms = perms if len(perms) <= 24 else s.sample(perms, 24)
    structures = case.get('structures', ['plain', 'multi', 'linked'])
    hash_trials = case.get('hash_trials', 2)
    stats.inc('families')
    maxmatch_family = 0
    for ci, call in enumerate(case['calls']):
        outcomes = {}

        def note(tag, o):
            outcomes.setdefault(core.jdump(o), []).append(tag)

        # (A) explicit enumeration orders, plain structure
        ctx = make_contexts(family, fds, list(range(n)), 'plain')
        matched = count_matching(ctx, call, engine, fds)
        maxmatch_family = max(maxmatch_family, matched)
        for p in perms:
            seams.OrderSeam.set(family_order_seam(
                {tags[i]: r for r, i in enumerate(p)}))
            try:
                note(['A', list(p)], do_call(ctx, call, engine))
            finally:
                seams.OrderSeam.set('natural')
            stats.inc('resolutions')
            stats.inc('fault.explicit_permutation')
        # (C) structures, a few orders each
        for st in structures:
            if st == 'plain':
                continue
            cx = make_contexts(family, fds, list(range(n)), st)
            for p in (perms if len(perms) <= 6 else s.sample(perms, 6)):
                seams.OrderSeam.set(family_order_seam(
                    {tags[i]: r for r, i in enumerate(p)}))
                try:
                    note(['C', st, list(p)], do_call(cx, call, engine))
                finally:
                    seams.OrderSeam.set('natural')
                stats.inc('resolutions')
                stats.inc('fault.structure_' + st)
        # (B) registration orders, natural set order under scrambled hashes
        for p in reg_perms:
            for h in range(hash_trials):
                seams.HashSeam.reset(random.Random(core.h64(
                    case['sched_seed'], 'hash', h, p)))
                try:
                    # a registration builds the definition and stores
                    # it: both happen in the order under test, in a host
                    # of its own
                    world, fds2 = {}, [None] * n
                    for i in p:
                        fds2[i] = build_fd(family[i], 'T%d' % i, world)
                    st = structures[(h + len(p)) % len(structures)]
                    cx = make_contexts(family, fds2, list(p), st)
                    note(['B', st, list(p), h], do_call(cx, call, engine))
                finally:
                    seams.HashSeam.reset(None)
                stats.inc('resolutions')
                stats.inc('fault.registration_order_natural_hash')
        stats.inc('calls')
        stats.inc('probe.matching_%d' % min(matched, 4))
        if len(outcomes) > 1:
            viols.append({
                'key': 'C06:outcome-depends-on-order',
                'clause': 'the outcome of resolving a call is the same for '
                          'every enumeration / registration order',
                'detail': {'call_index': ci, 'call': call,
                           'outcomes': {k: v[:3] for k, v in outcomes.items()},
                           'family': family}})
        else:
            o = next(iter(outcomes))
            stats.add('outcome_signatures', core.h64(core.jdump(family), o))
            if matched >= 2:
                stats.add('nontrivial', core.h64(core.jdump(family),
                                                 core.jdump(call)))
                stats.sample('sample', {'family': family, 'call': call,
                                        'outcome': o,
                                        'orders_tried': len(perms)}, 2)
    stats.inc('probe.family_max_matching_%d' % min(maxmatch_family, 4))
    return viols


def count_matching(ctx, call, engine, fds):
    """Instrumented pass: how many overloads of the nearest non-empty layer
    accept the call (map_args + get_delegate succeed)."""
    from yaql.language import exceptions as E
    from yaql.language import utils, runner
    args = tuple(value_from_spec(v) for v in call['args'])
    nkw = call['nkw']
    pos = args[:len(args) - nkw]
    kw = {'p%d' % (len(pos) + i): v for i, v in enumerate(args[len(pos):])}
    recv = utils.NO_VALUE
    if call['method'] and pos:
        recv = pos[0]
    n = 0
    for fd in fds:
        if recv is utils.NO_VALUE and not fd.is_function:
            continue
        if recv is not utils.NO_VALUE and not fd.is_method:
            continue
        try:
            a, k = runner.translate_args(fd.no_kwargs, pos, dict(kw))
            if fd.map_args(a, k, ctx, engine) is None:
                continue
            fd.get_delegate(recv, engine, ctx, a, k)
            n += 1
        except E.YaqlException:
            pass
        except Exception:
            pass
    return n


# ---------------------------------------------------------------------------
# the real standard library
# ---------------------------------------------------------------------------

def stdlib_targets():
    t = _state.get('targets')
    if t is None:
        import yaql
        import yaql.legacy
        t = []
        for flavour, ctx in (('default', yaql.create_context()),
                             ('legacy', yaql.legacy.create_context())):
            c = ctx
            depth = 0
            while c is not None:
                funcs = synth.layer_functions(c)
                if funcs:
                    for name in sorted(funcs):
                        if len(funcs[name]) >= 2:
                            t.append((flavour, depth, name))
                c = c.parent
                depth += 1
        _state['targets'] = t
        _state['ctx'] = {'default': yaql.create_context(),
                         'legacy': yaql.legacy.create_context()}
        _state['leg_engine'] = yaql.legacy.YaqlFactory().create()
    return t


import datetime  # noqa: E402

STD_VALUES = [
    ['int', 3], ['int', 0], ['float'], ['str', 'abc'], ['str', ''],
    ['bool', 1], ['none'], ['tuple'], ['etuple'], ['fdict'], ['fset'],
    ['iter'], ['dt'], ['ts'], ['callable'], ['regex'], ['list'], ['dict'],
]


def std_value(vs):
    from yaql.language import utils
    import re
    k = vs[0]
    if k in ('int', 'str'):
        return vs[1]
    if k == 'bool':
        return True
    if k == 'none':
        return None
    if k == 'float':
        return 2.5
    if k == 'tuple':
        return (1, 2, 3)
    if k == 'etuple':
        return ()
    if k == 'list':
        return [1, 2]
    if k == 'dict':
        return {'a': 1}
    if k == 'fdict':
        return utils.FrozenDict({'a': 1, 'b': 2})
    if k == 'fset':
        return frozenset([1, 2])
    if k == 'iter':
        return iter([1, 2, 3])
    if k == 'dt':
        return datetime.datetime(2020, 1, 2, 3, 4, 5,
                                 tzinfo=datetime.timezone.utc)
    if k == 'ts':
        return datetime.timedelta(hours=1)
    if k == 'callable':
        return lambda *a: a[0] if a else 1
    if k == 'regex':
        return re.compile('a.')
    raise core.HarnessError(vs)


def gen_stdlib_case(seeds, w):
    targets = stdlib_targets()
    flavour, depth, name = w.choice(targets)
    calls = []
    for _ in range(w.choice([3, 5, 8])):
        n = w.choice([1, 2, 2, 2, 3])
        calls.append({'args': [w.choice(STD_VALUES) for _ in range(n)],
                      'method': w.random() < 0.5})
    return {'kind': 'stdlib', 'flavour': flavour, 'name': name,
            'calls': calls, 'sched_seed': seeds.sub('schedule'),
            'orders': 12}


def execute_stdlib(case, stats):
    from yaql.language import exceptions as E
    from yaql.language import utils
    from sim import ser
    seams.OrderSeam.install()
    stdlib_targets()
    ctx = _state['ctx'][case['flavour']]
    engine = get_engine() if case['flavour'] == 'default' else _state['leg_engine']
    name = case['name']
    viols = []
    chosen = []

    # record which payload runs: wrap the payload slot of every overload of
    # this name in every layer for the duration of the run
    wrapped = []
    c = ctx
    while c is not None:
        for fd in list(synth.layer_functions(c).get(name, ())):
            orig = fd.payload

            def mk(orig, key):
                def rec(*a, **k):
                    chosen.append(key)
                    return orig(*a, **k)
                return rec
            wrapped.append((fd, orig))
            fd.payload = mk(orig, list(seams.fd_key(fd)[1:4]))
        c = c.parent
    stats.inc('stdlib_cases')
    try:
        for ci, call in enumerate(case['calls']):
            outcomes = {}
            maxlayer = 0
            for t in range(case['orders']):
                s = random.Random(core.h64(case['sched_seed'], ci, t))

                def cb(nm, layers, s=s):
                    out = []
                    for layer in layers:
                        lst = sorted(layer, key=seams.fd_key)
                        if t > 0:
                            s.shuffle(lst)
                        out.append(lst)
                    return out
                args = [std_value(v) for v in call['args']]
                del chosen[:]
                undo_random = seams.patch_random(4242)   # random()/randint()
                seams.OrderSeam.set(cb)
                try:
                    try:
                        if call['method']:
                            r = ctx(name, engine, receiver=args[0])(*args[1:])
                        else:
                            r = ctx(name, engine)(*args)
                        if utils.is_iterator(r):
                            r = list(itertools.islice(r, 20))
                        o = ['ok', ser.ser_value(r)]
                    except E.YaqlException as e:
                        o = ['exc', type(e).__name__]
                    except Exception as e:
                        o = ['exc!', type(e).__name__]
                finally:
                    seams.OrderSeam.set('natural')
                    undo_random()
                o.append(list(chosen[:1]))
                outcomes.setdefault(core.jdump(o), []).append(t)
                stats.inc('resolutions')
                stats.inc('fault.stdlib_layer_shuffle')
            stats.inc('calls')
            if len(outcomes) > 1:
                viols.append({
                    'key': 'C06:stdlib-outcome-depends-on-order',
                    'clause': 'standard-library overload resolution is the '
                              'same under every enumeration order',
                    'detail': {'name': name, 'flavour': case['flavour'],
                               'call': call,
                               'outcomes': {k[:300]: v[:3]
                                            for k, v in outcomes.items()}}})
            else:
                o = next(iter(outcomes))
                if '"ok"' in o:
                    stats.add('nontrivial', core.h64('std', case['flavour'],
                                                     name, core.jdump(call)))
                    stats.add('stdlib_names_resolved', core.h64(
                        case['flavour'], name))
    finally:
        for fd, orig in wrapped:
            fd.payload = orig
    return viols


# ---------------------------------------------------------------------------

def shrink_candidates(case):
    def mk(**kw):
        c = {k: v for k, v in case.items() if k != 'shrink'}
        c.update(kw)
        return c
    calls = case['calls']
    if len(calls) > 1:
        for i in range(len(calls)):
            yield mk(calls=[calls[i]])
    if case['kind'] != 'synthetic':
        for i, call in enumerate(calls):
            if len(call['args']) > 1:
                for j in range(len(call['args'])):
                    nc = dict(call)
                    nc['args'] = call['args'][:j] + call['args'][j + 1:]
                    yield mk(calls=calls[:i] + [nc] + calls[i + 1:])
        return
    fam = case['family']
    if len(fam) > 2:
        for i in range(len(fam)):
            yield mk(family=fam[:i] + fam[i + 1:])
    for st in (['plain'], ['plain', 'multi'], ['plain', 'linked']):
        if case.get('structures', ['plain', 'multi', 'linked']) != st:
            yield mk(structures=st)
    if case.get('hash_trials', 2) > 0:
        yield mk(hash_trials=0)
    for i, ov in enumerate(fam):
        for fld, val in (('varargs', None), ('no_kwargs', False),
                         ('layer', 0), ('kind', 'function'),
                         ('exclusive', False), ('decl_order', None)):
            if ov.get(fld) != val:
                nov = dict(ov)
                nov[fld] = val
                yield mk(family=fam[:i] + [nov] + fam[i + 1:])
    for i, call in enumerate(calls):
        for fld, val in (('nkw', 0), ('via', 'python'), ('method', False)):
            if call.get(fld) != val:
                nc = dict(call)
                nc[fld] = val
                yield mk(calls=calls[:i] + [nc] + calls[i + 1:])


def match_known(case, viol, entry):
    return False


def coverage(stats, params):
    return {
        'evaluations': stats.n('resolutions'),
        'distinct_nontrivial': stats.distinct('nontrivial'),
        'rule': 'a case = (overload family, call); every case is resolved '
                'under all permutations of the family (up to 720, sampled '
                'above), under registration orders with simulator-assigned '
                'identity hashes and through plain/multi/linked structures; '
                'distinct = distinct (family, call) hash; non-trivial = two '
                'or more overloads of one layer accept the call (synthetic), '
                'or the call resolved successfully on a multi-overload name '
                '(standard library)',
        'samples': stats.samples.get('sample', []) or [{'note': 'none'}],
        'families': stats.n('families'),
        'stdlib_cases': stats.n('stdlib_cases'),
        'stdlib_multi_overload_names_resolved': stats.distinct(
            'stdlib_names_resolved'),
        'calls': stats.n('calls'),
        'resolutions': stats.n('resolutions'),
        'distinct_outcome_signatures': stats.distinct('outcome_signatures'),
        'faults_fired': stats.counters('fault.'),
        'probes': stats.counters('probe.'),
        'real_components': ['yaql.language.runner / specs / contexts / '
                            'yaqltypes (unmodified)', 'default and legacy '
                            'context chains'],
        'stubbed_components': ['enumeration order of overload layers '
                               '(S-order)', 'identity hash of '
                               'FunctionDefinition (S-hash)',
                               'synthetic payloads returning their tag'],
        'exhaustive': False,
    }


def probe_warnings(stats):
    out = []
    if stats.n('probe.matching_3') + stats.n('probe.matching_4') == 0:
        out.append('no call with >= 3 simultaneously matching candidates')
    return out
