"""C20 - date/time values denote instants consistently (narrow claim).

Simulated environment: the process's local time zone (TZ + time.tzset(),
POSIX TZ strings: fixed offsets up to +-23:45 and DST rules whose transitions
are placed on the generated datetimes), changed between the steps of a short
history, so that a value built under one zone is used under another.  Oracle:
an instant-arithmetic reference model (integer microseconds since the epoch,
offset) for every clause of the statement, plus: every step result is
identical under every simulated zone assignment (the suite only ever runs in
UTC, where "naive = UTC" and "naive = local" cannot be told apart).
"""
import datetime
import json
import math
import os
import time

from sim import core

ID = 'C20'
LEVEL = 'exploration'
ASSUMPTIONS = [
    'reference model: Python integer arithmetic on (instant in microseconds '
    'since 1970-01-01T00:00:00Z, offset in microseconds); naive host '
    'datetimes are the same wall time at offset 0',
    'float tolerance for timestamps: max(1 us, 4 ulp(s)); unit properties: '
    'relative 1e-12',
    'cases whose instant or wall time leaves years 1..9999 (with a 2 day '
    'margin) on either side are counted as trivial',
    'the zone seam is the C library zone (TZ/tzset); now() and localtz() '
    'are environment functions by design and are not evaluated',
]

TIERS = {
    'quick': {'runs': 24000, 'chunk': 300, 'timeout_s': 900},
    'thorough': {'runs': 1200000, 'chunk': 3000, 'timeout_s': 6 * 3600,
                 'chunk_timeout_s': 3000},
}

EPOCH = datetime.datetime(1970, 1, 1, tzinfo=datetime.timezone.utc)
MIN_US = None
_state = {}
US = 1000000


# ---------------------------------------------------------------------------
# model helpers
# ---------------------------------------------------------------------------

def td_us(td):
    return td.days * 86400 * US + td.seconds * US + td.microseconds


def wall_us(d):
    """microseconds of the wall-clock fields since 0001-01-01 (naive)."""
    return td_us(d.replace(tzinfo=None) - datetime.datetime(1, 1, 1))


WALL_EPOCH = td_us(datetime.datetime(1970, 1, 1) - datetime.datetime(1, 1, 1))
WALL_MAX = td_us(datetime.datetime(9999, 12, 31, 23, 59, 59, 999999) -
                 datetime.datetime(1, 1, 1))
MARGIN = 2 * 86400 * US


def model_of(d):
    """(instant_us, offset_us) of a datetime, naive taken as UTC."""
    off = d.utcoffset()
    off_us = td_us(off) if off is not None else 0
    return wall_us(d) - WALL_EPOCH - off_us, off_us


def in_range(instant_us, off_us):
    """both the UTC wall time and the local wall time are representable,
    with margin"""
    for w in (instant_us + WALL_EPOCH, instant_us + WALL_EPOCH + off_us):
        if not (MARGIN <= w <= WALL_MAX - MARGIN):
            return False
    return True


def ulp(x):
    return math.ulp(abs(x)) if x else 5e-324


# ---------------------------------------------------------------------------
# values (JSON specs -> python objects)
# ---------------------------------------------------------------------------

def dt_from_spec(s):
    """s = {'f': [y,mo,d,h,mi,s,us], 'off': minutes|None, 'tz': kind}"""
    from dateutil import tz
    f = s['f']
    d = (HostDateTime if s.get('sub') else datetime.datetime)(*f)
    off = s.get('off')
    if off is None:
        return d
    kind = s.get('tz', 'py')
    if kind.startswith('tzstr:'):
        # a host zone whose offset varies (daylight saving), as hosts get
        # from dateutil / zoneinfo; one tzinfo object per spec
        z = _state.setdefault('tzstr', {}).get(kind)
        if z is None:
            z = _state['tzstr'][kind] = tz.tzstr(kind[6:])
        return d.replace(tzinfo=z)
    if kind.startswith('hostcls:'):
        # a tzinfo class of the host's own (hashable, weakly referencable,
        # unknown to dateutil), daylight saving from April to September
        z = _state.setdefault('hostcls', {}).get(kind)
        if z is None:
            z = _state['hostcls'][kind] = HostZone(int(kind[8:]))
        return d.replace(tzinfo=z)
    if kind == 'dateutil':
        z = tz.tzutc() if off == 0 else tz.tzoffset(None, off * 60)
    else:
        z = datetime.timezone(datetime.timedelta(minutes=off))
    return d.replace(tzinfo=z)


class HostZone(datetime.tzinfo):
    def __init__(self, std_minutes):
        self.std = datetime.timedelta(minutes=std_minutes)

    def dst(self, dt):
        return datetime.timedelta(hours=1 if 4 <= dt.month <= 9 else 0)

    def utcoffset(self, dt):
        return self.std + self.dst(dt)

    def tzname(self, dt):
        return 'HDT' if 4 <= dt.month <= 9 else 'HST'

    def __repr__(self):
        return 'HostZone(%d)' % (self.std.total_seconds() // 60)


class HostDateTime(datetime.datetime):
    """hosts hand in subclasses of datetime as well (arrow / pendulum style)"""


def ts_from_spec(s):
    return datetime.timedelta(days=s[0], hours=s[1], minutes=s[2],
                              seconds=s[3], milliseconds=s[4],
                              microseconds=s[5])


def gen_dt(w, naive_ok=True):
    r = w.random()
    if r < 0.04:
        # the very ends of the representable range: the wall clock fits, the
        # UTC instant (or the shifted wall clock) may not
        if w.random() < 0.5:
            f = [1, 1, 1, w.randrange(0, 14), w.randrange(60), w.randrange(60),
                 w.choice([0, 1, 999999])]
            off = w.choice([60, 180, 330, 600, 840, 1439, -60, 0])
        else:
            f = [9999, 12, 31, w.randrange(10, 24), w.randrange(60),
                 w.randrange(60), w.choice([0, 999999])]
            off = w.choice([-60, -120, -330, -600, -720, -1439, 60, 0])
        return {'f': f, 'off': off, 'tz': w.choice(['py', 'dateutil'])}
    r = w.random()
    if r < 0.1:
        y = w.choice([1, 2, 9998, 9999])
    elif r < 0.3:
        y = w.randrange(1, 10000)
    else:
        y = w.randrange(1900, 2100)
    mo = w.randrange(1, 13)
    d = w.randrange(1, 29)
    f = [y, mo, d, w.randrange(24), w.randrange(60), w.randrange(60),
         w.choice([0, 1, 999999, w.randrange(1000000)])]
    r = w.random()
    if naive_ok and r < 0.3:
        off = None
    elif r < 0.45:
        off = 0
    else:
        off = gen_off(w)
    return {'f': f, 'off': off, 'tz': w.choice(['py', 'dateutil']),
            'sub': w.random() < 0.15}


def gen_off(w):
    r = w.random()
    if r < 0.15:
        return w.choice([-1439, 1439, -1, 1, 180, -720, 840, 345])
    if r < 0.6:
        return w.randrange(-14 * 60, 14 * 60 + 1, 15)
    return w.randrange(-1439, 1440)


def gen_ts(w):
    r = w.random()
    if r < 0.3:
        return [w.randrange(-3, 4), w.randrange(-30, 31), w.randrange(-90, 91),
                w.randrange(-100, 101), w.randrange(-2000, 2001),
                w.randrange(-2000000, 2000001)]
    if r < 0.6:
        return [w.randrange(-400000, 400001), w.randrange(-100, 101),
                w.randrange(-1000, 1001), w.randrange(-100000, 100001),
                w.randrange(-10 ** 6, 10 ** 6), w.randrange(-10 ** 9, 10 ** 9)]
    return [w.choice([0, 0, 1, -1]), w.choice([0, 0, 24, -1]),
            w.choice([0, 60, -1]), w.choice([0, 1, -1, 86400]),
            w.choice([0, 1, -1, 1000]), w.choice([0, 1, -1, 10 ** 6])]


def gen_zone(w, around=None):
    r = w.random()
    if r < 0.15:
        return 'UTC0'
    if r < 0.55:
        # POSIX: positive = west of Greenwich
        h = w.randrange(0, 24)
        m = w.choice([0, 0, 30, 45, 15, w.randrange(60)])
        sign = w.choice(['-', '+'])
        if h == 0 and m == 0:
            m = 30
        return 'SIM%s%d:%02d' % (sign, h, m)
    if r < 0.7:
        return w.choice(['EST5EDT,M3.2.0,M11.1.0', 'CET-1CEST,M3.5.0,M10.5.0/3',
                         'AEST-10AEDT,M10.1.0,M4.1.0/3', 'NZST-12NZDT,M9.5.0,M4.1.0/3',
                         'JST-9', 'IST-5:30', 'NST3:30NDT,M3.2.0,M11.1.0'])
    # DST rule whose transitions sit on the generated datetime
    doy = 100
    if around is not None:
        d = datetime.date(2001, around[1], min(around[2], 28))
        doy = d.timetuple().tm_yday
    a = max(1, min(365, doy + w.choice([-1, 0, 0, 1])))
    b = max(1, min(365, a + w.choice([1, 30, 150])))
    if a == b:
        b = a % 365 + 1
    return 'SST%d:%02dSDT,J%d/%d,J%d/%d' % (
        w.randrange(-12, 13), w.choice([0, 30]), a, w.randrange(0, 24), b,
        w.randrange(0, 24))


CLAUSES = ['ts_roundtrip', 'dt_roundtrip', 'utc', 'addsub', 'compare',
           'units', 'build', 'naive', 'hostzone']
HOSTZONES = ['EST5EDT,M3.2.0,M11.1.0', 'CET-1CEST,M3.5.0,M10.5.0/3',
             'AEST-10AEDT,M10.1.0,M4.1.0/3', 'NST3:30NDT,M3.2.0,M11.1.0']


def gen_case(seeds, params, index):
    w = seeds.stream('workload')
    f = seeds.stream('faults')
    clause = w.choice(CLAUSES)
    vals = {}
    d = gen_dt(w)
    if clause == 'naive':
        d['off'] = None
    if clause == 'hostzone':
        d['off'] = 0            # placeholder, the zone decides the offset
        d['tz'] = 'tzstr:' + w.choice(HOSTZONES) if w.random() < 0.6 else \
            'hostcls:%d' % w.choice([-300, 60, 570, -720, 0])
        d['f'][0] = w.randrange(1990, 2040)
        if w.random() < 0.6:
            # near a typical transition date
            d['f'][1], d['f'][2] = w.choice([(3, 8), (3, 14), (3, 27), (3, 30),
                                             (10, 3), (10, 25), (10, 31),
                                             (11, 1), (11, 7), (4, 3)])
    vals['d'] = ['dt', d]
    if clause == 'hostzone':
        # another value carrying the SAME zone object, half a year away (in
        # the other phase of the zone's daylight saving rule)
        d3 = json.loads(json.dumps(d))
        d3['f'][1] = (d3['f'][1] + 5) % 12 + 1
        d3['f'][2] = min(d3['f'][2], 28)
        vals['d3'] = ['dt', d3]
    d2 = gen_dt(w)
    r = w.random()
    if r < 0.6:
        # same instant seen from another offset / naive twin / 1 us apart
        base = dt_from_spec(d)
        inst, off = model_of(base)
        noff = w.choice([None, 0, gen_off(w)])
        delta = w.choice([0, 0, 0, 1, -1, US, -60 * US])
        try:
            nd = (datetime.datetime(1970, 1, 1) + datetime.timedelta(
                microseconds=inst + delta + (noff or 0) * 60 * US))
            d2 = {'f': [nd.year, nd.month, nd.day, nd.hour, nd.minute,
                        nd.second, nd.microsecond], 'off': noff,
                  'tz': w.choice(['py', 'dateutil'])}
        except OverflowError:
            pass
    vals['d2'] = ['dt', d2]
    vals['t'] = ['ts', gen_ts(w)]
    if clause == 'hostzone' and w.random() < 0.7:
        vals['t'] = ['ts', [w.choice([0, 1, -1, 7]), w.choice([0, 1, 12, 24, -3]),
                            w.choice([0, 30]), 0, 0, 0]]
    o = gen_off(w)
    vals['o'] = ['ts', [0, 0, o, 0, 0, 0]]
    r = w.random()
    if r < 0.5:
        s = w.randrange(-2 * 10 ** 9, 4 * 10 ** 9)
    elif r < 0.8:
        s = w.randrange(-62135596800 + 3 * 86400, 253402300800 - 3 * 86400)
    else:
        s = w.choice([0, 1, -1, 86399, 1000, 1164126600])
    if w.random() < 0.5:
        s = s + w.choice([0.5, 0.25, 0.000001, 0.999999, w.random()])
    vals['s'] = ['num', s]
    nsteps = 6
    zone_sets = []
    k = f.choice([2, 3, 3, 4])
    for i in range(k):
        if i == 0:
            zone_sets.append(['UTC0'] * nsteps)
        elif f.random() < 0.5:
            zone_sets.append([gen_zone(f, d['f'])] * nsteps)
        else:
            zone_sets.append([gen_zone(f, d['f']) for _ in range(nsteps)])
    return {'clause': clause, 'vals': vals, 'zones': zone_sets,
            'ctx': 'legacy' if w.random() < 0.2 else 'default'}


# ---------------------------------------------------------------------------
# programs per clause: list of (expr, store_as)
# ---------------------------------------------------------------------------

PROGRAMS = {
    'ts_roundtrip': [('datetime($s, $o)', 'r'), ('$r.timestamp', 'q'),
                     ('$r.offset', 'ro'), ('datetime($s).timestamp', 'q0'),
                     ('datetime($s).offset', 'ro0'), ('$r.offset', 'ro')],
    'dt_roundtrip': [('$d.timestamp', 'q'), ('$d.offset', 'do'),
                     ('datetime($q, $do)', 'r'), ('$r.timestamp', 'q2')],
    'utc': [('$d.offset', 'do'), ('$d.utc', 'u'), ('$u.offset', 'uo'),
            ('$u.timestamp', 'uq'), ('$d.timestamp', 'q'),
            ('$d.offset', 'do2')],
    'addsub': [('$d + $t', 'r1'), ('$r1 - $t', 'r2'), ('$r1 - $d', 'r3'),
               ('[$r2 = $d, $r3 = $t, ($t + $d) = $r1, $r2 != $d]', 'b')],
    'compare': [('[$d < $d2, $d <= $d2, $d > $d2, $d >= $d2]', 'c1'),
                ('[$d = $d2, $d != $d2]', 'c2'),
                ('$d - $d2', 'df'), ('[$d2 < $d, $d2 = $d]', 'c3')],
    'units': [('[$t.days, $t.hours, $t.minutes, $t.seconds, '
               '$t.milliseconds, $t.microseconds]', 'u'),
              ('timespan(microseconds => $t.microseconds)', 't2'),
              ('timespan(microseconds => $t.microseconds) = $t', 'b'),
              ('timespan(days => $c[0], hours => $c[1], minutes => $c[2], '
               'seconds => $c[3], milliseconds => $c[4], '
               'microseconds => $c[5])', 't3')],
    'build': [('datetime($f[0], $f[1], $f[2], $f[3], $f[4], $f[5], $f[6], $o)',
               'r'), ('$r.offset', 'ro'), ('$r.timestamp', 'q'),
              ('$r.utc', 'u')],
    'hostzone': [('$d + $t', 'r1'), ('$r1 - $t', 'r2'), ('$r1 - $d', 'r3'),
                 ('[$r2 = $d, $r3 = $t, ($t + $d) = $r1]', 'b'),
                 ('[$d.utc, $d3.utc]', 'u'),
                 ('[$d.timestamp, $d3.timestamp]', 'q'),
                 ('[$d = $d.utc, $d3 = $d3.utc, $d3 > $d, $d3 > $d.utc, '
                  '$d3.utc > $d]', 'c')],
    'naive': [('[$d.offset, $d.timestamp, $d.utc]', 'p'),
              ('[$d - $d2, $d < $d2, $d >= $d2, $d = $d2]', 'c'),
              ('$d + $t', 'r1'), ('$r1 - $d', 'r3')],
}


def engine_ctx(flavour='default'):
    if 'engine' not in _state:
        import yaql
        import yaql.legacy
        _state['engine'] = yaql.YaqlFactory().create(
            {'yaql.convertOutputData': False})
        _state['ctx'] = yaql.create_context()
        # the legacy function set on top of the standard library, used with
        # the modern engine (hosts migrating from 0.2 do exactly this)
        _state['ctx_legacy'] = yaql.legacy.create_context()
        _state['stmts'] = {}
    return _state['engine'], _state['ctx_legacy' if flavour == 'legacy'
                                    else 'ctx']


def set_zone(z):
    os.environ['TZ'] = z
    time.tzset()


def ser(v):
    if isinstance(v, datetime.datetime):
        try:
            return ['dt'] + list(model_of(v))
        except Exception as e:
            return ['dt!', repr(v), type(e).__name__]
    if isinstance(v, datetime.timedelta):
        return ['ts', td_us(v)]
    if isinstance(v, float):
        return ['float', repr(v)]
    if isinstance(v, (list, tuple)):
        return ['seq'] + [ser(x) for x in v]
    if isinstance(v, Exception):
        return ['exc', type(v).__name__]
    return [type(v).__name__, v]


def run_program(case, zones, stats):
    engine, base = engine_ctx(case.get('ctx', 'default'))
    ctx = base.create_child_context()
    vals = case['vals']
    for name, (kind, spec) in vals.items():
        if kind == 'dt':
            ctx[name] = dt_from_spec(spec)
        elif kind == 'ts':
            ctx[name] = ts_from_spec(spec)
        else:
            ctx[name] = spec
    ctx['f'] = tuple(vals['d'][1]['f'])
    ctx['c'] = tuple(vals['t'][1])
    out = {}
    prog = PROGRAMS[case['clause']]
    for i, (expr, name) in enumerate(prog):
        z = zones[i % len(zones)]
        set_zone(z)
        st = _state['stmts'].get(expr)
        if st is None:
            st = _state['stmts'][expr] = engine(expr)
        try:
            v = st.evaluate(context=ctx.create_child_context())
            if not isinstance(v, (datetime.datetime, datetime.timedelta,
                                  int, float, bool, str, type(None))):
                v = list(v)
        except Exception as e:
            v = e
        out[name] = v
        if not isinstance(v, Exception):
            ctx[name] = v
        else:
            ctx[name] = None
        stats.inc('evaluations')
    return out


# ---------------------------------------------------------------------------
# oracle
# ---------------------------------------------------------------------------

def close(a, b, ref):
    return abs(a - b) <= max(1e-6, 4 * ulp(ref))


def check_clause(case, out):
    """Returns (status, problems): status 'trivial' if the case leaves the
    representable range; problems = list of (clause, detail)."""
    vals = case['vals']
    d = dt_from_spec(vals['d'][1])
    d2 = dt_from_spec(vals['d2'][1])
    t = ts_from_spec(vals['t'][1])
    o = ts_from_spec(vals['o'][1])
    s = vals['s'][1]
    di, doff = model_of(d)
    d2i, d2off = model_of(d2)
    t_us = td_us(t)
    o_us = td_us(o)
    clause = case['clause']
    P = []
    edge = [False]
    REFUSALS = (OverflowError, ValueError, OSError)

    def exc(name):
        return isinstance(out.get(name), Exception)

    def bad(what, **kw):
        P.append((what, kw))

    def need(*names):
        ok = True
        for n in names:
            if exc(n):
                if edge[0] and isinstance(out[n], REFUSALS):
                    # at the ends of the representable range the library may
                    # refuse; a value it does return must still be right
                    ok = False
                    continue
                if edge[0] and out[n].__class__.__name__ in (
                        'NoMatchingFunctionException',
                        'NoMatchingMethodException', 'TypeError'):
                    # a step that consumes the result of a refused step
                    ok = False
                    continue
                bad('unexpected-exception', step=n,
                    error=type(out[n]).__name__ + ': ' + str(out[n])[:120])
                ok = False
        return ok

    if clause == 'ts_roundtrip':
        inst = int(round(s * US))
        if not in_range(inst, o_us) or not in_range(inst, 0):
            edge[0] = True
        if need('r', 'q', 'ro', 'q0', 'ro0'):
            if td_us(out['ro0']) != 0:
                bad('datetime(s).offset != 0', got=td_us(out['ro0']))
            ri, roff = model_of(out['r'])
            if roff != o_us or td_us(out['ro']) != o_us:
                bad('datetime(s,o).offset != o', got=roff, expected=o_us)
            if not close(out['q'], s, s):
                bad('datetime(s,o).timestamp != s', got=out['q'], expected=s)
            if not close(ri / US, s, s):
                bad('datetime(s,o) is not the instant s', got=ri / US,
                    expected=s)
            if not close(out['q0'], s, s):
                bad('datetime(s).timestamp != s', got=out['q0'], expected=s)
    elif clause == 'dt_roundtrip':
        if not in_range(di, doff):
            edge[0] = True
        if need('q', 'do', 'r', 'q2'):
            if not close(out['q'], di / US, di / US):
                bad('d.timestamp is not the instant of d', got=out['q'],
                    expected=di / US)
            if td_us(out['do']) != doff:
                bad('d.offset wrong', got=td_us(out['do']), expected=doff)
            ri, roff = model_of(out['r'])
            if roff != doff:
                bad('datetime(d.timestamp, d.offset).offset != d.offset',
                    got=roff, expected=doff)
            if not close(ri / US, di / US, di / US):
                bad('datetime(d.timestamp, d.offset) != d', got=ri,
                    expected=di)
    elif clause == 'utc':
        if not in_range(di, doff):
            edge[0] = True
        if need('u', 'uo', 'uq', 'q', 'do', 'do2'):
            if td_us(out['do']) != doff or td_us(out['do2']) != doff:
                bad('d.offset wrong', got=[td_us(out['do']),
                                           td_us(out['do2'])], expected=doff)
            ui, uoff = model_of(out['u'])
            if ui != di:
                bad('d.utc is a different instant', got=ui, expected=di)
            if uoff != 0 or td_us(out['uo']) != 0:
                bad('d.utc offset is not zero', got=uoff)
            if not close(out['uq'], di / US, di / US) or \
                    not close(out['q'], di / US, di / US):
                bad('timestamp of d / d.utc differs from the instant',
                    got=[out['uq'], out['q']], expected=di / US)
    elif clause in ('addsub', 'naive') and clause == 'addsub':
        if not in_range(di, doff) or not in_range(di + t_us, doff):
            edge[0] = True
        if need('r1', 'r2', 'r3', 'b'):
            r1i, r1off = model_of(out['r1'])
            if r1i != di + t_us:
                bad('d + t is not the instant d + t', got=r1i,
                    expected=di + t_us)
            r2i, _ = model_of(out['r2'])
            if r2i != di:
                bad('(d + t) - t != d', got=r2i, expected=di)
            if td_us(out['r3']) != t_us:
                bad('(d + t) - d != t', got=td_us(out['r3']), expected=t_us)
            if list(out['b']) != [True, True, True, False]:
                bad('equality of round-tripped values', got=list(out['b']),
                    expected=[True, True, True, False])
    elif clause == 'hostzone':
        # only the two round-trip identities are claimed for zones whose
        # offset varies (Python adds timespans on the wall clock there)
        try:
            ok_range = MARGIN <= wall_us(d) + t_us <= WALL_MAX - MARGIN
        except Exception:
            ok_range = False
        if not ok_range:
            edge[0] = True
        if need('r1', 'r2', 'r3', 'b'):
            r2 = out['r2']
            if r2.replace(tzinfo=None) != d.replace(tzinfo=None) or \
                    r2.utcoffset() != d.utcoffset():
                bad('(d + t) - t != d (host zone with varying offset)',
                    got=repr(r2), expected=repr(d))
            if td_us(out['r3']) != t_us:
                bad('(d + t) - d != t (host zone with varying offset)',
                    got=td_us(out['r3']), expected=t_us)
            if list(out['b']) != [True, True, True]:
                bad('equality of round-tripped values (host zone)',
                    got=list(out['b']), expected=[True, True, True])
        if 'd3' in vals and need('u', 'q', 'c'):
            # every value of a host zone denotes the instant its own
            # utcoffset() says, whatever was seen of that zone before
            d3 = dt_from_spec(vals['d3'][1])
            for nm, dv, uv, qv in (('d', d, out['u'][0], out['q'][0]),
                                   ('d3', d3, out['u'][1], out['q'][1])):
                inst, _ = model_of(dv)
                ui, uoff = model_of(uv)
                if ui != inst or uoff != 0:
                    bad('%s.utc is not the same instant at offset zero '
                        '(host zone)' % nm, got=repr(uv), expected=inst)
                if not close(qv, inst / 1e6, inst / 1e6):
                    bad('%s.timestamp is not the instant (host zone)' % nm,
                        got=qv, expected=inst / 1e6)
            later = model_of(d3)[0] > model_of(d)[0]
            if list(out['c']) != [True, True, later, later, later]:
                bad('equality / ordering of instants (host zone)',
                    got=list(out['c']),
                    expected=[True, True, later, later, later])
    elif clause == 'compare':
        if not in_range(di, doff) or not in_range(d2i, d2off):
            edge[0] = True
        if need('c1', 'c2', 'df', 'c3'):
            exp = [di < d2i, di <= d2i, di > d2i, di >= d2i]
            if list(out['c1']) != exp:
                bad('ordering does not compare instants', got=list(out['c1']),
                    expected=exp)
            exp = [di == d2i, di != d2i]
            if list(out['c2']) != exp:
                bad('equality does not compare instants',
                    got=list(out['c2']), expected=exp,
                    naive=[vals['d'][1]['off'] is None,
                           vals['d2'][1]['off'] is None])
            if td_us(out['df']) != di - d2i:
                bad('d - d2 is not the difference of instants',
                    got=td_us(out['df']), expected=di - d2i)
            exp = [d2i < di, d2i == di]
            if list(out['c3']) != exp:
                bad('comparison (swapped) does not compare instants',
                    got=list(out['c3']), expected=exp,
                    naive=[vals['d'][1]['off'] is None,
                           vals['d2'][1]['off'] is None])
    elif clause == 'units':
        if need('u', 't2', 'b'):
            u = list(out['u'])
            if u[5] != t_us or not isinstance(u[5], int):
                bad('microseconds is not the exact quantity', got=u[5],
                    expected=t_us)
            divs = [86400e6, 3600e6, 60e6, 1e6, 1e3]
            for v, dv, nm in zip(u[:5], divs, ['days', 'hours', 'minutes',
                                               'seconds', 'milliseconds']):
                e = t_us / dv
                if abs(v - e) > 1e-12 * max(1.0, abs(e)):
                    bad('unit property %s is not microseconds/%g' % (nm, dv),
                        got=v, expected=e)
            if abs(u[0] * 24 - u[1]) > 1e-9 * max(1.0, abs(u[1])):
                bad('days * 24 != hours', got=[u[0], u[1]])
            if td_us(out['t2']) != t_us or out['b'] is not True:
                bad('timespan(microseconds => x.microseconds) != x',
                    got=[ser(out['t2']), out['b']], expected=t_us)
        if not exc('t3'):
            if td_us(out['t3']) != t_us:
                bad('timespan(components) is not their sum',
                    got=td_us(out['t3']), expected=t_us)
        else:
            bad('unexpected-exception', step='t3',
                error=type(out['t3']).__name__)
    elif clause == 'build':
        f = vals['d'][1]['f']
        w = wall_us(datetime.datetime(*f))
        inst = w - WALL_EPOCH - o_us
        if not in_range(inst, o_us):
            edge[0] = True
        if need('r', 'ro', 'q', 'u'):
            ri, roff = model_of(out['r'])
            if ri != inst or roff != o_us or td_us(out['ro']) != o_us:
                bad('datetime(components, offset) is not that wall time at '
                    'that offset', got=[ri, roff], expected=[inst, o_us])
            if not close(out['q'], inst / US, inst / US):
                bad('timestamp of built datetime', got=out['q'],
                    expected=inst / US)
            ui, uoff = model_of(out['u'])
            if ui != inst or uoff != 0:
                bad('utc of built datetime', got=[ui, uoff],
                    expected=[inst, 0])
    elif clause == 'naive':
        if not in_range(di, 0) or not in_range(d2i, d2off) or \
                not in_range(di + t_us, 0):
            edge[0] = True
        if need('p', 'c', 'r1', 'r3'):
            p = list(out['p'])
            if td_us(p[0]) != 0:
                bad('naive host datetime: offset is not zero',
                    got=td_us(p[0]))
            if not close(p[1], di / US, di / US):
                bad('naive host datetime: timestamp is not wall time at UTC',
                    got=p[1], expected=di / US)
            ui, uoff = model_of(p[2])
            if ui != di or uoff != 0:
                bad('naive host datetime: utc is not the same wall time at '
                    'offset 0', got=[ui, uoff], expected=[di, 0])
            c = list(out['c'])
            exp = [di - d2i, di < d2i, di >= d2i, di == d2i]
            got = [td_us(c[0])] + c[1:]
            if got != exp:
                bad('naive host datetime: difference / comparison is not '
                    'that of the wall time at UTC', got=got, expected=exp,
                    naive=[True, vals['d2'][1]['off'] is None])
            r1i, _ = model_of(out['r1'])
            if r1i != di + t_us or td_us(out['r3']) != t_us:
                bad('naive host datetime: arithmetic', got=[r1i, td_us(out['r3'])],
                    expected=[di + t_us, t_us])
    return ('edge' if edge[0] else 'checked'), P


def execute(case, stats):
    viols = []
    sers = []
    status = None
    try:
        for zi, zones in enumerate(case['zones']):
            out = run_program(case, zones, stats)
            for z in set(zones):
                stats.add('zones_used', z)
            if len(set(zones)) > 1:
                stats.inc('fault.zone_changed_mid_history')
            if any(z != 'UTC0' for z in zones):
                stats.inc('fault.non_utc_zone_run')
            if any(',' in z for z in zones):
                stats.inc('fault.dst_zone_run')
            status, P = check_clause(case, out)
            for what, kw in P:
                key = 'C20:' + case['clause'] + ':' + what.split(':')[0][:60]
                if what == 'unexpected-exception':
                    key += ':' + kw.get('step', '') + ':' + \
                        kw.get('error', '').split(':')[0]
                viols.append({'key': key, 'clause': what,
                              'detail': dict(kw, zones=zones,
                                             vals=case['vals'])})
            sers.append(core.jdump({k: ser(v) for k, v in out.items()}))
            if viols:
                break
        if not viols and len(set(sers)) > 1:
            viols.append({
                'key': 'C20:%s:result-depends-on-process-time-zone'
                       % case['clause'],
                'clause': 'every result is identical under every simulated '
                          'zone',
                'detail': {'zones': case['zones'], 'results': sers[:3],
                           'vals': case['vals']}})
    finally:
        set_zone('UTC0')
    stats.inc('clause.' + case['clause'])
    stats.inc('context.' + case.get('ctx', 'default'))
    stats.inc('status.' + (status or 'none'))
    if status == 'checked':
        vals = case['vals']
        offs = (vals['d'][1]['off'], vals['d2'][1]['off'])
        sig = (case['clause'],
               'naive' if offs[0] is None else ('neg' if offs[0] < 0 else
                                                'zero' if offs[0] == 0 else 'pos'),
               'naive2' if offs[1] is None else 'aware2',
               len(case['zones']),
               any(len(set(z)) > 1 for z in case['zones']),
               any(',' in x for z in case['zones'] for x in z))
        stats.add('combos', core.jdump(sig))
        stats.add('nontrivial', core.h64(core.jdump(case['vals']),
                                         case['clause']))
        stats.sample('sample', {'clause': case['clause'],
                                'vals': case['vals'],
                                'zones': case['zones']}, 2)
    return viols


# ---------------------------------------------------------------------------

def shrink_candidates(case):
    def mk(**kw):
        c = {k: v for k, v in case.items() if k != 'shrink'}
        c.update(kw)
        return c
    zs = case['zones']
    if len(zs) > 1:
        for i in range(len(zs)):
            yield mk(zones=zs[:i] + zs[i + 1:])
    for i, z in enumerate(zs):
        if len(set(z)) > 1:
            for zz in sorted(set(z)):
                yield mk(zones=zs[:i] + [[zz] * len(z)] + zs[i + 1:])
        for simple in ('UTC0', 'SIM-9:00', 'SIM+5:00'):
            if any(x != simple for x in z) and not (i == 0 and simple != 'UTC0'):
                yield mk(zones=zs[:i] + [[simple] * len(z)] + zs[i + 1:])
    if case.get('ctx') == 'legacy':
        yield mk(ctx='default')
    vals = case['vals']
    for name in ('d', 'd2'):
        spec = vals[name][1]
        for f in ([2000, 1, 1, 0, 0, 0, 0], [2000, 1, 1, 12, 0, 0, 0],
                  spec['f'][:4] + [0, 0, 0], spec['f'][:6] + [0]):
            if spec['f'] != f:
                nv = dict(vals)
                nv[name] = ['dt', dict(spec, f=f)]
                yield mk(vals=nv)
        for off in (0, 60, -60):
            if spec['off'] is not None and spec['off'] != off:
                nv = dict(vals)
                nv[name] = ['dt', dict(spec, off=off)]
                yield mk(vals=nv)
        if spec.get('tz') != 'py':
            nv = dict(vals)
            nv[name] = ['dt', dict(spec, tz='py')]
            yield mk(vals=nv)
    for t in ([0, 0, 0, 0, 0, 0], [0, 1, 0, 0, 0, 0], [1, 0, 0, 0, 0, 0]):
        if vals['t'][1] != t:
            nv = dict(vals)
            nv['t'] = ['ts', t]
            yield mk(vals=nv)
    for o in (0, 60, -60, 180):
        if vals['o'][1][2] != o:
            nv = dict(vals)
            nv['o'] = ['ts', [0, 0, o, 0, 0, 0]]
            yield mk(vals=nv)
    for s in (0, 1000, 86400, int(vals['s'][1])):
        if vals['s'][1] != s:
            nv = dict(vals)
            nv['s'] = ['num', s]
            yield mk(vals=nv)


def match_known(case, viol, entry):
    m = entry.get('match', {})
    if m.get('key') and viol['key'] != m['key']:
        return False
    if 'naive_pair' in m:
        nv = viol.get('detail', {}).get('naive')
        if nv is None or (nv[0] == nv[1]):
            return False
    return bool(m)


def coverage(stats, params):
    return {
        'evaluations': stats.n('runs'),
        'distinct_nontrivial': stats.distinct('nontrivial'),
        'rule': 'a case = (clause of the statement, generated datetimes / '
                'offsets / timespans / timestamp, 2-4 zone assignments of the '
                '4-step history, the first always all-UTC); every clause is '
                'checked against the instant model under each assignment and '
                'all step results must be identical across assignments; '
                'distinct = distinct (values, clause); non-trivial = the '
                'case stays inside years 1..9999 (with margin) so that the '
                'identities were really evaluated',
        'samples': stats.samples.get('sample', []) or [{'note': 'none'}],
        'expression_evaluations': stats.n('evaluations'),
        'clauses': stats.counters('clause.'),
        'contexts': stats.counters('context.'),
        'status': stats.counters('status.'),
        'distinct_zone_strings': stats.distinct('zones_used'),
        'distinct_clause_zone_offset_combinations': stats.distinct('combos'),
        'faults_fired': stats.counters('fault.'),
        'simulated_time_steps': {'history_steps': stats.n('evaluations')},
        'real_components': ['yaql.standard_library.date_time, '
                            'yaqltypes.DateTime, the generic =/!= operators, '
                            'dateutil.tz, the C library zone code (tzset)'],
        'stubbed_components': ['process time zone (TZ/tzset with POSIX '
                               'strings)', 'host datetime values'],
        'exhaustive': False,
    }
