"""C01 - a shared engine parses every text as if it were alone.

Simulated: 1-3 host threads parsing lists of texts on ONE engine (per factory
configuration); pre-emption before every token fetch (wrapper around
ply.lex.Lexer.token, class level) or at every line of ply / yaql code
(sys.settrace); the thread scheduler is the stub, everything else is real.
Oracle: the outcome (tree or error) of the same text on a fresh engine that
was created for that text alone.
"""
import itertools
import math
import os
import random

from sim import core, sched, ser

ID = 'C01'
LEVEL = 'exploration'
ASSUMPTIONS = [
    'pre-emption happens only at the instrumented points: before each token '
    'fetch (ply.lex.Lexer.token entry) or, in the line flavour, between two '
    'Python lines of ply/yaql code; a race that needs a switch inside one '
    'bytecode line is out of reach (the GIL makes those atomic)',
    'the reference is the same text parsed by a fresh engine of the same '
    'factory configuration built for that text alone',
    'free-running real threads are not part of the deciding step (a failure '
    'there would not replay); every token-granularity interleaving they can '
    'produce is in the simulated space',
]

TIERS = {
    'quick': {'runs': 40000, 'corpus': 100, 'chunk': 250, 'timeout_s': 900,
              'enum_pairs': 6, 'enum_maxfetch': 6},
    'thorough': {'runs': 480000, 'corpus': 400, 'chunk': 2000,
                 'timeout_s': 6 * 3600, 'enum_pairs': 40,
                 'enum_maxfetch': 8, 'chunk_timeout_s': 3000},
}

CONFIGS = ['default', 'delegates', 'legacy', 'custom']

_engines = {}
_refs = {}          # (config, text) -> outcome
_corpus = {}        # config -> list of texts
_fetches = {}       # (config, text) -> number of token fetches
_installed = False


# ---------------------------------------------------------------------------
# engines, reference outcomes
# ---------------------------------------------------------------------------

def make_engine(config):
    import yaql
    from yaql.language import factory as F
    if config == 'default':
        return yaql.YaqlFactory().create()
    if config == 'delegates':
        return yaql.YaqlFactory(allow_delegates=True).create()
    if config == 'legacy':
        import yaql.legacy
        return yaql.legacy.YaqlFactory().create()
    if config == 'custom':
        f = yaql.YaqlFactory()
        f.insert_operator('+', True, '**', F.OperatorType.BINARY_RIGHT_ASSOCIATIVE,
                          True)
        f.insert_operator('not', False, '!', F.OperatorType.SUFFIX_UNARY,
                          False)
        f.insert_operator('>', True, 'is', F.OperatorType.BINARY_LEFT_ASSOCIATIVE,
                          False, 'is_same')
        return f.create()
    raise core.HarnessError('unknown config ' + config)


def cold_engine(config):
    """An engine nobody has parsed with yet: a deep copy of a pristine
    prototype (12 ms instead of 130 ms for building one).  Lazily initialised
    state inside the engine is in its initial condition."""
    import copy
    proto = _engines.get(('proto', config))
    if proto is None:
        proto = _engines[('proto', config)] = make_engine(config)
    if not _engines.get(('proto-uncopyable', config)):
        try:
            return copy.deepcopy(proto)
        except Exception:
            # e.g. an engine that holds a lock: build a new one instead
            _engines[('proto-uncopyable', config)] = True
    return make_engine(config)


def shared_engine(config):
    e = _engines.get(config)
    if e is None:
        e = _engines[config] = make_engine(config)
    return e


def outcome_of(engine, text, options=None):
    from yaql.language import exceptions as E
    try:
        if options:
            st = engine(text, options)
        else:
            st = engine(text)
    except E.YaqlParsingException as e:
        out = ser.ser_parse_error(e)
        if not options:
            # what else the exception object carries: a traceback of this
            # parse only, no notes of anybody else
            import traceback
            out.append(['tb-frames', len(traceback.extract_tb(e.__traceback__)),
                        'notes', len(getattr(e, '__notes__', ()) or ())])
        return out
    except Exception as e:      # any other exception class is compared too
        return ['error!', type(e).__name__, str(e)]
    if _keep[0] is not None:
        # the host keeps the statements it parsed (a rule table, a cache of
        # prepared queries) while it goes on parsing other texts
        _keep[0].append(st)
    return ['ok', ser.ser_expr(st)]


_keep = [None]      # where outcome_of retains parsed statements, if anywhere
_kept = []          # statements retained by earlier runs of this process


def ref(config, text):
    """Outcome of the text on a fresh engine built for it alone - in a fresh
    process, so that building the reference cannot repair (or disturb)
    process-global state of the run being judged."""
    k = (config, text)
    r = _refs.get(k)
    if r is None:
        res = _ref_chunk((config, [text]))[0]
        r = _refs[k] = res[2]
        _fetches[k] = res[3]
    return r


def count_fetches(config, text):
    k = (config, text)
    n = _fetches.get(k)
    if n is None:
        ref(config, text)           # fills _fetches in a forked child
        n = _fetches.get(k)
    if n is None:
        install_token_seam()
        cnt = [0]
        global _fetch_counter
        _fetch_counter = cnt
        try:
            # a scratch engine: the shared engines must be pristine when the
            # workers are forked, so that a run's in-process history is
            # exactly the earlier runs of its chunk (replayable as prelude)
            eng = _engines.get(('scratch', config))
            if eng is None:
                eng = _engines[('scratch', config)] = make_engine(config)
            outcome_of(eng, text)
        finally:
            _fetch_counter = None
        n = _fetches[k] = cnt[0]
    return n


_fetch_counter = None


def install_token_seam():
    """Class-level wrapper: every lexer (clones too) yields before a fetch."""
    global _installed
    if _installed:
        return
    import ply.lex
    orig = ply.lex.Lexer.token

    def token(self):
        if _fetch_counter is not None:
            _fetch_counter[0] += 1
        b = sched.current_baton()
        if b is not None:
            b.point('token')
        return orig(self)
    token.__wrapped__ = orig
    ply.lex.Lexer.token = token
    _installed = True


# ---------------------------------------------------------------------------
# text generator (grammar directed over the configuration's operator table)
# ---------------------------------------------------------------------------

BIN = {
    'default': ['+', '-', '*', '/', 'mod', '>', '<', '>=', '<=', '!=', '=',
                'in', 'and', 'or', '->', '=~', '!~'],
}
BIN['delegates'] = BIN['default']
BIN['legacy'] = BIN['default'] + ['=>']
BIN['custom'] = BIN['default'] + ['**', 'is']
UN = ['-', '+', 'not ']
NAMES = ['a', 'b', 'foo', 'len', 'x1', 'select', 'where', 'bar_baz']
ATOMS = ['1', '2', '23', '4.5', '0', "'ab'", '"x y"', '`v`', "'a\\'b'",
         'true', 'false', 'null', '$', '$a', '$1', '$foo', "''"]


def gen_expr(rng, config, depth):
    if depth <= 0 or rng.random() < 0.25:
        return rng.choice(ATOMS)
    k = rng.randrange(12)
    sub = lambda: gen_expr(rng, config, depth - 1)  # noqa: E731
    if k < 3:
        return '%s %s %s' % (sub(), rng.choice(BIN[config]), sub())
    if k == 3:
        return '%s%s' % (rng.choice(UN), sub())
    if k == 4:
        return '%s.%s' % (sub(), rng.choice(NAMES))
    if k == 5:
        return '%s.%s(%s)' % (sub(), rng.choice(NAMES), gen_args(rng, config, depth))
    if k == 6:
        return '%s(%s)' % (rng.choice(NAMES), gen_args(rng, config, depth))
    if k == 7:
        return '[%s]' % ', '.join(sub() for _ in range(rng.randrange(4)))
    if k == 8:
        if config == 'legacy':
            return '%s[%s]' % (sub(), sub())
        return '{%s}' % ', '.join('%s => %s' % (sub(), sub())
                                  for _ in range(rng.randrange(3)))
    if k == 9:
        return '%s[%s]' % (sub(), sub())
    if k == 10:
        return '(%s)' % sub()
    if config == 'delegates':
        return '%s(%s)' % ('(%s)' % sub(), gen_args(rng, config, depth))
    if config == 'custom':
        return '%s !' % sub()
    return '%s?.%s' % (sub(), rng.choice(NAMES))


def gen_args(rng, config, depth):
    n = rng.randrange(4)
    out = []
    for _ in range(n):
        if config != 'legacy' and rng.random() < 0.25:
            out.append('%s => %s' % (rng.choice(NAMES),
                                     gen_expr(rng, config, depth - 1)))
        else:
            out.append(gen_expr(rng, config, depth - 1))
    return ', '.join(out)


BAD_CHARS = ['#', '@', '!', '~', '^', ';', ':', '\\', "'", '"', '(', ')', ']',
             '}', ',', '.', '=>', '$', ' ', '__a', '?']


def mutate(rng, text):
    if not text:
        return '+'
    k = rng.randrange(5)
    i = rng.randrange(len(text) + 1)
    if k == 0 and len(text) > 1:
        j = min(len(text), i + 1 + rng.randrange(2))
        return text[:i] + text[j:]
    if k == 1:
        return text[:i] + rng.choice(BAD_CHARS) + text[i:]
    if k == 2:
        toks = text.split(' ')
        if len(toks) > 2:
            a, b = rng.sample(range(len(toks)), 2)
            toks[a], toks[b] = toks[b], toks[a]
            return ' '.join(toks)
        return text + ' ' + text
    if k == 3:
        return text[:i]
    return text + rng.choice([' +', ' )', ',', ' 1', '.', ' and'])


def build_corpus(config, n, seed):
    """Deterministic corpus: valid texts, broken mutations of them, and
    confusable pairs (same length / same prefix / prefix of each other /
    same tokens in another order)."""
    rng = random.Random(core.h64('c01-corpus', config, seed))
    texts = ['1 + 2', '$a.b(3)', '$', '1', "'x'", 'f()', '1 +', ')', '#',
             'a b', '[1, 2]', '$.a.b', "'abc' + 'abd'", "'abd' + 'abc'",
             '1 = 2', '$a != $b', '$x = 1 and $y != 2', "'a\\tb' = $s",
             '$.a = $.b', 'not $a = $b', '[1 = 1, 2 != 3]',
             '$x + ' + '7' * 4400, '[' + '9' * 4500 + ', 1]', '1 +', '(2',
             '[1,'] + [t for g in FOCUS_GROUPS for t in g] + BURST_TEXTS
    if config == 'delegates':
        texts += ['$(1)', '(f)(2, 3)']
    if config == 'custom':
        texts += ['2 ** 3 ** 4', '$ !', '1 is 2']
    if config == 'legacy':
        texts += ['$.a => $.b', 'f(1 => 2)']
    while len(texts) < n:
        k = rng.randrange(10)
        base = gen_expr(rng, config, rng.choice([1, 1, 2, 2, 3, 4]))
        if k < 5:
            texts.append(base)
        elif k < 8:
            texts.append(mutate(rng, base))
        elif k == 8:
            # confusable: same length, differing in one character
            other = list(base)
            idx = [i for i, c in enumerate(other) if c.isdigit()]
            if idx:
                i = rng.choice(idx)
                other[i] = str((int(other[i]) + 1) % 10)
                texts.append(base)
                texts.append(''.join(other))
            else:
                texts.append(base + ' + 1')
        elif k == 9 and rng.random() < 0.5:
            texts.append(base)
            texts.append(base + rng.choice([' + 1', '.a', ' and $', ' +']))
        else:
            # texts that a lossy normalisation (whitespace, case, number
            # spelling) would identify although their trees differ
            lit = rng.choice(["'a b'", '"x y"', "'Ab'", '`p q`', "'a\tb'"])
            var = {"'a b'": ["'a  b'", "'a\tb'", "'a b '", "' a b'"],
                   '"x y"': ['"x  y"', '"x\ty"', '"X y"'],
                   "'Ab'": ["'ab'", "'AB'", "'Ab '"],
                   '`p q`': ['`p  q`', '`P q`'],
                   "'a\tb'": ["'a b'", "'a\t\tb'"]}[lit]
            shape = rng.choice(['%s', '%s + $', 'f(%s)', '$.g(%s, 1)',
                                '[%s, 2]', '$a = %s'])
            texts.append(shape % lit)
            texts.append(shape % rng.choice(var))
            if rng.random() < 0.5:
                texts.append((shape % lit).replace(' ', '  '))
            n1 = rng.choice(['1', '10', '2.5'])
            texts.append('$x + %s' % n1)
            texts.append('$x + %s' % {'1': '1.0', '10': '1.0', '2.5': '2.50'}[n1])
            texts.append('$X + %s' % n1)
    seen = set()
    out = []
    for t in texts:
        if t not in seen and (len(t) < 200 or t.count('7') > 4000 or
                              t.count('9') > 4000):
            seen.add(t)
            out.append(t)
    return out[:max(n, 48)]


def _ref_one(config, t):
    global _fetch_counter
    cnt = [0]
    _fetch_counter = cnt
    try:
        o = outcome_of(make_engine(config), t)
    finally:
        _fetch_counter = None
    return (config, t, o, cnt[0])


def _ref_chunk(args):
    """(config, text, outcome on a fresh engine, number of token fetches) -
    every text in a forked child of its own: the parent process never parses
    anything (it hands a pristine interpreter state to its workers), and
    whatever process-global state one text's parse leaves behind cannot
    reach the reference of the next."""
    config, texts = args
    core.import_yaql()
    install_token_seam()
    return [core.fork_call(lambda t=t: _ref_one(config, t)) for t in texts]


def prepare_replay_case(case):
    """Replay: the references of every text of the case (and of its prelude)
    are computed before anything runs, from the still pristine process - as
    in a batch, where they come from the table built before the workers are
    forked.  A reference forked from a process whose global state an earlier
    run has already damaged would share the damage and hide it."""
    core.import_yaql()
    want = {}
    for c in [case] + list(case.get('prelude', [])):
        if c.get('burst'):
            want.setdefault(c.get('config', 'default'), [])
            if c['burst'][0] not in want[c.get('config', 'default')]:
                want[c.get('config', 'default')].append(c['burst'][0])
        for task in c.get('tasks', []):
            for op in task:
                if isinstance(op, (list, tuple)) and op and \
                        isinstance(op[0], str):
                    want.setdefault(c.get('config', 'default'), [])
                    if op[0] not in want[c.get('config', 'default')]:
                        want[c.get('config', 'default')].append(op[0])
    jobs = []
    for c, ts in want.items():
        for i in range(0, len(ts), 6):
            jobs.append((c, ts[i:i + 6]))
    for res in core.fork_map(_ref_chunk, jobs):
        for c, t, o, nf in res:
            _refs[(c, t)] = o
            _fetches[(c, t)] = nf


def prepare(params, replay=False):
    core.import_yaql()
    install_token_seam()
    if replay:
        # the same process history as a batch worker: all shared engines
        # exist, created in the same order, before the first run
        for c in CONFIGS:
            shared_engine(c)
        return {}
    root = int(os.environ.get('VERIF_SEED', '0') or 0)
    jobs = []
    for c in CONFIGS:
        _corpus[c] = build_corpus(c, params['corpus'], root)
        ts = _corpus[c]
        for i in range(0, len(ts), 6):
            jobs.append((c, ts[i:i + 6]))
    for res in core.fork_map(_ref_chunk, jobs):
        for c, t, o, nf in res:
            _refs[(c, t)] = o
            _fetches[(c, t)] = nf
    nvalid = sum(1 for o in _refs.values() if o[0] == 'ok')
    for c in CONFIGS:
        shared_engine(c)
    # short pairs for the enumerated-interleavings flavour
    pairs = []
    rng = random.Random(core.h64('c01-enum', root))
    for c in CONFIGS:
        short = [t for t in _corpus[c] if count_fetches(c, t) <= params['enum_maxfetch']]
        for _ in range(params['enum_pairs']):
            a, b = rng.choice(short), rng.choice(short)
            fa, fb = count_fetches(c, a), count_fetches(c, b)
            pairs.append((c, a, b, fa, fb, math.comb(fa + fb, fa)))
    params['_pairs'] = pairs
    params['_enum_total'] = sum(p[5] for p in pairs)
    return {'reference_engines_built': len(_refs),
            'corpus_texts': {c: len(_corpus[c]) for c in CONFIGS},
            'corpus_valid_texts': nvalid,
            'corpus_invalid_texts': len(_refs) - nvalid}


# ---------------------------------------------------------------------------
# case generation
# ---------------------------------------------------------------------------

def _unrank(idx, a, b):
    """idx-th interleaving (as a list of task ids) of a zeros and b ones."""
    out = []
    while a or b:
        if a == 0:
            out.append(1)
            b -= 1
        elif b == 0:
            out.append(0)
            a -= 1
        else:
            c = math.comb(a + b - 1, a - 1)     # sequences starting with 0
            if idx < c:
                out.append(0)
                a -= 1
            else:
                idx -= c
                out.append(1)
                b -= 1
    return out


# texts a confused client keeps sending (the same malformed input again and
# again) before ordinary use goes on
BURST_TEXTS = ['((((1', 'f(g(h(1', '[[[[', '(2', 'f(', '1 +', '$.a.', "'abc",
               '{{{', '((1 + 2) * (3', '[1, (2, [3', '$a.b(c(', '1 +* 2',
               '"x\\', '`a', '1 ) ) )', 'f(1))']


FOCUS_GROUPS = [
    ['$x + ' + '7' * 4400, '[' + '9' * 4500 + ', 1]'],
    ["'a\\tb' = $s", "'x\\ny' + 'p\\u0041q'", "'ab\\xZZ'", '"q\\"r" + `v\\`w`'],
    ['1 = 2', '$a != $b', 'not $a = $b', '$x = 1 and $y != 2'],
    ['1 +', '(2', '[1,', 'f(', '$.a.'],
    ['true and false', 'null', '$a.b.c(d => 1)', '12.5 * 3'],
    # literals that are equal as Python values and different as constants
    ['$ * 2.0', '[10, 20, 30][2]', '2 + 2.0', '1.0', '1', '0.0 + 0', "'1' + 1",
     '10 / 4', '10.0 / 4.0', 'str(2)', '[0, 0.0, -0.0]', '1 = 1.0'],
]


def gen_case(seeds, params, index):
    w = seeds.stream('workload')
    s = seeds.stream('schedule')
    total_enum = params.get('_enum_total', 0)
    if index < total_enum and index < params['runs'] // 2:
        # enumerated flavour: the index IS the interleaving
        acc = 0
        for c, a, b, fa, fb, n in params['_pairs']:
            if index < acc + n:
                seq = _unrank(index - acc, fa, fb)
                schedule = [[t, len(list(g))] for t, g in itertools.groupby(seq)]
                return {'config': c, 'flavour': 'parse', 'preempt': 'token',
                        'mode': 'enum', 'tasks': [[[a, None]], [[b, None]]],
                        'schedule': schedule}
            acc += n
    if index % 16 == 7:
        # focused: the same rare lexical feature in both threads, line-level
        # pre-emption, single-switch positions swept over the short trace
        config = w.choice(CONFIGS)
        group = w.choice(FOCUS_GROUPS)
        return {'config': config, 'flavour': 'parse', 'preempt': 'line',
                'mode': 'focused', 'cold': w.random() < 0.5,
                'tasks': [[[w.choice(group), None]], [[w.choice(group), None]]],
                'sweep': 12, 'sweep_seed': seeds.sub('sweep'),
                'same_thread_names': w.random() < 0.3,
                'keep': w.random() < 0.4,
                'sched': {'policy': 'sequential'}}
    config = w.choice(CONFIGS)
    corpus = _corpus[config]
    r = w.random()
    flavour = 'parse'
    if r < 0.12:
        ntasks = 1                      # pure history
    elif r < 0.75:
        ntasks = 2
    else:
        ntasks = 3
    if config == 'default' and w.random() < 0.15:
        flavour = 'eval'                # yaql.eval(): module-level caches
    preempt = 'line' if w.random() < 0.2 else 'token'
    mix = w.random()
    tasks = []
    pool = [w.choice(corpus) for _ in range(3)]
    for t in range(ntasks):
        n = w.choice([1, 1, 2, 3, 4]) if ntasks > 1 else w.choice([2, 4, 6, 8])
        ops = []
        for _ in range(n):
            if mix < 0.3:
                text = w.choice(pool)       # same few texts everywhere
            else:
                text = w.choice(corpus)
            opt = None
            if flavour == 'parse' and w.random() < 0.1:
                opt = {'yaql.limitIterators': 5}    # engine.copy() path
            elif flavour == 'parse' and w.random() < 0.04:
                opt = 'lex'     # tokenise on engine.lexer (as `yaql -t` does)
            ops.append([text, opt])
        tasks.append(ops)
    if preempt == 'token':
        pol = s.choice(['random', 'random', 'pct'])
        spec = {'policy': pol, 'seed': seeds.sub('sched'),
                'mean': s.choice([1, 1, 2, 4])}
        if pol == 'pct':
            spec['switch_at'] = sorted(s.randrange(1, 40)
                                       for _ in range(s.randrange(1, 6)))
    else:
        pol = s.choice(['random', 'pct', 'writes'])
        spec = {'policy': pol, 'seed': seeds.sub('sched'),
                'mean': s.choice([3, 30, 300])}
        if pol == 'pct':
            spec['switch_at'] = sorted(s.randrange(1, 6000)
                                       for _ in range(s.randrange(1, 6)))
        if pol == 'writes':
            # switch right after the n-th execution of a (seeded) statement
            # of ply / yaql that stores into an attribute, subscript or
            # global; sites are resolved at execution time
            spec['write_picks'] = [[s.random(), s.randrange(1, 12)]
                                   for _ in range(s.randrange(1, 5))]
    cold = flavour == 'parse' and w.random() < 0.08
    if cold:
        # first parses on a brand-new engine: operators with aliases, escapes
        pool2 = ['1 = 2', '$a != $b', '$x = 1 and $y != 2', "'a\\tb' = $s",
                 '1 is 2' if config == 'custom' else '$.a = $.b',
                 'not $a = $b', '[1 = 1, 2 != 3]']
        for ops in tasks:
            if w.random() < 0.7:
                ops[0][0] = w.choice(pool2)
        preempt = 'line'
        spec = {'policy': s.choice(['random', 'writes', 'pct']),
                'seed': seeds.sub('sched'), 'mean': s.choice([3, 30, 300])}
        if spec['policy'] == 'pct':
            spec['switch_at'] = sorted(s.randrange(1, 3000)
                                       for _ in range(s.randrange(1, 6)))
        if spec['policy'] == 'writes':
            spec['write_picks'] = [[s.random(), s.randrange(1, 6)]
                                   for _ in range(s.randrange(1, 5))]
    return {'config': config, 'flavour': flavour, 'preempt': preempt,
            'mode': 'sampled', 'tasks': tasks, 'sched': spec, 'cold': cold,
            'same_thread_names': w.random() < 0.3,
            'keep': w.random() < 0.25,
            'burst': [w.choice(BURST_TEXTS), w.choice([10, 30, 60, 150])]
            if w.random() < 0.04 else None}


# ---------------------------------------------------------------------------
# execution
# ---------------------------------------------------------------------------

def _write_lines():
    w = _refs.get('__write_lines__')
    if w is None:
        import ply
        w = set()
        for root in (os.path.join(core.repo_root(), 'yaql', 'language'),
                     os.path.dirname(os.path.abspath(ply.__file__))):
            w |= set(sched.find_write_lines(root))
        w = _refs['__write_lines__'] = frozenset(w)
    return w


def _tracer_files():
    import ply
    return (os.path.join(core.repo_root(), 'yaql') + os.sep,
            os.path.dirname(os.path.abspath(ply.__file__)) + os.sep)


def execute(case, stats):
    """Focused cases sweep single-switch schedules over one short trace."""
    if case.get('sweep'):
        # (also on replay: the phases before the failing one are part of the
        # history of the shared engine, so the whole sweep is repeated)
        import random
        # every phase derives its schedule from its own spec (sweep_seed);
        # the recorded schedule of the failing phase is informational only
        outer, case = case, dict(case)
        case.pop('schedule', None)
        probe_case = dict(case, sched={'policy': 'sequential'})
        v = _execute_once(probe_case, core.Stats())
        if v:
            outer['schedule'] = probe_case.get('schedule', [])
            return v
        total = sum(q for _, q in probe_case.get('schedule', [])) or 1
        r = random.Random(case.get('sweep_seed', 0))
        for _ in range(case['sweep']):
            c2 = dict(case)
            c2.pop('sweep')
            c2['sched'] = {'policy': 'pct', 'seed': r.randrange(1 << 30),
                           'switch_at': [r.randrange(1, total + 1)]}
            v = _execute_once(c2, stats)
            stats.inc('sweep_phases')
            if v:
                outer['schedule'] = c2['schedule']
                return v
        outer['schedule'] = probe_case.get('schedule', [])
        return []
    return _execute_once(case, stats)


def _execute_once(case, stats):
    import yaql
    from yaql.language import expressions as X
    install_token_seam()
    config = case['config']
    engine = cold_engine(config) if case.get('cold') else shared_engine(config)
    flavour = case.get('flavour', 'parse')
    inparse = [0] * len(case['tasks'])
    probe = {'mid2': 0}

    def on_switch(frm, to, baton):
        if sum(1 for x in inparse if x) >= 2:
            probe['mid2'] += 1

    kw = {}
    spec = case.get('sched')
    if case.get('preempt') == 'line':
        kw['tracer_files'] = _tracer_files()
        wl = _write_lines()
        kw['write_lines'] = wl
        if spec and spec.get('policy') == 'writes' and 'schedule' not in case:
            sites = sorted(wl)
            spec = dict(spec)
            spec['switch_at_w'] = [
                list(sites[int(r * len(sites)) % len(sites)]) + [n]
                for r, n in spec.get('write_picks', [])]
    if case.get('same_thread_names'):
        kw['thread_name'] = 'worker'      # hosts name their pool threads alike
    baton = sched.Baton(sched_spec=spec,
                        schedule=case.get('schedule'), step_cap=400000,
                        on_switch=on_switch, **kw)

    saved = None
    sched.install_coop_locks()
    if flavour == 'eval' and not all(hasattr(yaql, n) for n in (
            '_cached_engine', '_cached_expressions', '_default_context')):
        flavour = 'parse'       # the caches are an implementation detail
    if flavour == 'eval':
        saved = (yaql._cached_engine, yaql._cached_expressions,
                 yaql._default_context, X.Statement.evaluate)
        yaql._cached_engine = engine
        yaql._cached_expressions = {}
        yaql._default_context = _dummy_context()
        X.Statement.evaluate = lambda self, data=None, context=None: self

    def mk(tid, ops):
        def fn():
            outs = []
            for text, opt in ops:
                inparse[tid] = 1
                try:
                    if flavour == 'eval':
                        outs.append(_eval_outcome(yaql, text))
                    elif opt == 'lex':
                        outs.append(_lex_directly(engine, text))
                    else:
                        outs.append(outcome_of(engine, text, opt))
                finally:
                    inparse[tid] = 0
            return outs
        return fn

    viols = []
    if case.get('burst') and flavour == 'parse':
        btext, bn = case['burst']
        bexp = ref(config, btext)
        for i in range(bn):
            got = outcome_of(engine, btext)
            if got != bexp:
                viols.append({
                    'key': 'C01:outcome-differs-from-fresh-engine',
                    'clause': 'a parse returns the tree / error the text '
                              'produces on a fresh engine',
                    'detail': {'kind': 'burst', 'repetition': i,
                               'text': btext, 'expected': bexp, 'got': got}})
                break
    for tid, ops in enumerate(case['tasks']):
        baton.add(mk(tid, ops))
    if case.get('keep'):
        if len(_kept) > 96:
            del _kept[:]
        _keep[0] = _kept
    try:
        results = baton.run()
        cache_after = dict(yaql._cached_expressions) if flavour == 'eval' else {}
    finally:
        _keep[0] = None
        if saved:
            (yaql._cached_engine, yaql._cached_expressions,
             yaql._default_context, X.Statement.evaluate) = saved
    if baton.aborted:
        raise core.HarnessError('C01 run aborted: %s' % baton.aborted)
    if 'schedule' not in case:
        case['schedule'] = baton.recorded
    nfail_then_ok = 0
    for tid, ops in enumerate(case['tasks']):
        failed_before = False
        for j, (text, opt) in enumerate(ops):
            got = results[tid][j]
            if opt == 'lex':
                continue
            exp = ref(config, text)
            if (opt or flavour == 'eval') and exp and \
                    isinstance(exp[-1], list) and \
                    exp[-1][:1] == ['tb-frames']:
                exp = exp[:-1]      # only compared for parses without options
            if got != exp:
                kind = ('tree-vs-tree' if got[0] == 'ok' == exp[0] else
                        'error-vs-error' if got[0] != 'ok' != exp[0] else
                        'tree-vs-error')
                viols.append({
                    'key': 'C01:outcome-differs-from-fresh-engine',
                    'clause': 'a parse returns the tree / error the text '
                              'produces on a fresh engine',
                    'detail': {'kind': kind, 'task': tid, 'op': j,
                               'text': text, 'expected': exp, 'got': got}})
            if exp[0] != 'ok':
                failed_before = True
            elif failed_before:
                nfail_then_ok += 1
    for text, st in cache_after.items():
        got = ['ok', ser.ser_expr(st)]
        if got != ref(config, text):
            viols.append({
                'key': 'C01:eval-cache-holds-wrong-tree',
                'clause': 'module-level expression cache maps a text to the '
                          'tree of another text',
                'detail': {'text': text, 'expected': ref(config, text),
                           'got': got}})
    # statistics
    ntasks = len(case['tasks'])
    stats.inc('steps.' + case.get('preempt', 'token'), baton.total_steps)
    stats.inc('fault.context_switches', baton.switches)
    stats.inc('probe.switch_while_two_parses_in_flight', probe['mid2'])
    stats.inc('parses', sum(len(o) for o in case['tasks']))
    if case.get('burst'):
        stats.inc('fault.malformed_input_burst')
        stats.inc('parses', case['burst'][1])
    if case.get('keep'):
        stats.inc('fault.host_keeps_parsed_statements')
    stats.inc('flavour.%s.%s.%dtasks' % (flavour, case.get('preempt'), ntasks))
    stats.inc('config.' + config)
    if case.get('cold'):
        stats.inc('flavour.cold_engine')
    if case.get('mode') == 'enum':
        stats.inc('enum_interleavings')
    stats.inc('probe.valid_parse_after_failed_parse_same_thread', nfail_then_ok)
    sig = core.h64(config, flavour, core.jdump(case['tasks']),
                   core.jdump(baton.recorded))
    stats.add('interleavings', sig)
    if probe['mid2'] or (ntasks == 1 and nfail_then_ok):
        stats.add('nontrivial', sig)
    if probe['mid2']:
        stats.sample('sample', {'config': config, 'flavour': flavour,
                                'preempt': case.get('preempt'),
                                'tasks': case['tasks'],
                                'schedule': baton.recorded[:40]}, 2)
    return viols


def _lex_directly(engine, text):
    """The engine's public lexer used directly, the way the command line
    tool lists tokens; not a parse, so nothing is compared for it."""
    lexer = engine.lexer
    try:
        lexer.input(text)
        n = 0
        while lexer.token() is not None and n < 500:
            n += 1
    except Exception:
        pass
    return ['lex']


def _dummy_context():
    from yaql.language import contexts
    return contexts.Context()


def _eval_outcome(yaql, text):
    from yaql.language import exceptions as E
    try:
        st = yaql.eval(text)
    except E.YaqlParsingException as e:
        return ser.ser_parse_error(e)
    except Exception as e:
        return ['error!', type(e).__name__, str(e)]
    return ['ok', ser.ser_expr(st)]


# ---------------------------------------------------------------------------
# shrinking, known findings, evidence
# ---------------------------------------------------------------------------

def shrink_candidates(case):
    if case.get('sweep'):
        # does the failing schedule alone reproduce?  then shrink that
        c = {k: v for k, v in case.items() if k not in ('sweep', 'shrink')}
        if c.get('schedule'):
            yield c
        return

    def mk(**kw):
        c = {k: v for k, v in case.items() if k not in ('sched', 'shrink')}
        c.update(kw)
        return c
    tasks = case['tasks']
    schedule = case.get('schedule', [])
    # drop a task (renumber the schedule)
    if len(tasks) > 1:
        for t in range(len(tasks)):
            nt = tasks[:t] + tasks[t + 1:]
            ns = [[x - (1 if x > t else 0), q] for x, q in schedule if x != t]
            yield mk(tasks=nt, schedule=ns)
    # drop one parse
    for t in range(len(tasks)):
        if len(tasks[t]) > 1:
            for j in range(len(tasks[t])):
                nt = [list(o) for o in tasks]
                nt[t] = nt[t][:j] + nt[t][j + 1:]
                yield mk(tasks=nt)
    # drop options
    for t in range(len(tasks)):
        for j in range(len(tasks[t])):
            if tasks[t][j][1]:
                nt = [[list(x) for x in o] for o in tasks]
                nt[t][j][1] = None
                yield mk(tasks=nt)
    # fewer context switches
    for i in range(len(schedule)):
        yield mk(schedule=schedule[:i] + schedule[i + 1:])
    for i in range(len(schedule)):
        yield mk(schedule=schedule[:i + 1])
    for i in range(len(schedule)):
        if schedule[i][1] > 1:
            ns = [list(s) for s in schedule]
            ns[i][1] = schedule[i][1] // 2
            yield mk(schedule=ns)
    # eval flavour -> plain parse
    if case.get('flavour') == 'eval':
        yield mk(flavour='parse')
    if case.get('preempt') == 'line':
        yield mk(preempt='token', schedule=[])


def match_known(case, viol, entry):
    return False


def coverage(stats, params):
    enum_total = params.get('_enum_total', 0)
    return {
        'evaluations': stats.n('runs'),
        'distinct_nontrivial': stats.distinct('nontrivial'),
        'rule': 'a case = (factory configuration, per-thread text lists from '
                'a seeded corpus of grammar-generated, mutated and confusable '
                'texts, executed schedule); distinct = distinct hash of that '
                'triple; non-trivial = at least one context switch happened '
                'while two or more parses were in progress (multi-thread '
                'runs), or a valid text was parsed after a failed parse on '
                'the same engine (single-thread history runs)',
        'samples': stats.samples.get('sample', []) or [{'note': 'no sample'}],
        'distinct_interleavings': stats.distinct('interleavings'),
        'enumerated_short_pair_interleavings': {
            'covered': stats.n('enum_interleavings'),
            'total_for_the_chosen_pairs': enum_total,
            'pairs': [list(p) for p in params.get('_pairs', [])][:8]},
        'simulated_time_steps': stats.counters('steps.'),
        'parses': stats.n('parses'),
        'faults_fired': stats.counters('fault.'),
        'probes': stats.counters('probe.'),
        'flavours': stats.counters('flavour.'),
        'configs': stats.counters('config.'),
        'real_components': ['yaql.language.factory/lexer/parser/expressions '
                            '(unmodified)', 'ply.lex, ply.yacc (unmodified)',
                            'yaql.eval module-level caches'],
        'stubbed_components': ['thread scheduler (baton over real threads)',
                               'Statement.evaluate in the yaql.eval flavour '
                               '(returns the parsed statement)'],
        'exhaustive': False,
    }


def probe_warnings(stats):
    out = []
    for p in ('probe.switch_while_two_parses_in_flight',
              'probe.valid_parse_after_failed_parse_same_thread'):
        if stats.n(p) == 0:
            out.append(p)
    return out
