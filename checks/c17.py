"""C17 - context trees resolve variables and functions layer by layer.

Simulated: a host growing a forest of Context / MultiContext / LinkedContext
objects through a seeded history of operations (set, delete, child creation,
multi / linked composition, register, exclusive register, delete_function),
including operations that legitimately fail.  After EVERY operation every
observable of every context is compared with a flattened-layers reference
model written from the property statement (not from the classes).
"""
from sim import core

ID = 'C17'
LEVEL = 'exploration'
ASSUMPTIONS = [
    'writes (set / register) go to the first plain context of the own layer '
    '(taken from the anchored mechanism: Context own storage, MultiContext '
    'first member, LinkedContext proxy)',
    'after a delete that RAISED through a multi/linked context the model '
    'adopts, for that one name, the state observed in each plain context of '
    'the own layer (the property does not define partial deletes); after '
    'delete_function the model adopts the observed exclusivity flag of the '
    'touched plain contexts',
    'function sets are compared as multisets of (payload name, registered '
    'name) labels per layer, so the comparison does not depend on set order',
]

TIERS = {
    'quick': {'runs': 4000, 'chunk': 50, 'timeout_s': 900, 'max_ops': 40},
    'thorough': {'runs': 240000, 'chunk': 500, 'timeout_s': 6 * 3600,
                 'max_ops': 60, 'chunk_timeout_s': 3000},
}

VAR_NAMES = ['$', '$1', '', 'a', '$a', 'b']
FN_QUERIES = ['f', 'g', 'f_', 'h', 'nosuch', 'to_up', 'toUp', 'get_it',
              'getIt']
SENT = object()
DEFAULT_NAMES = ['f', 'g', 'h', 'f', 'g', 'f', 'to_up', 'get_it']
KINDS = {'f': 'F', 'g': 'F', 'h_': 'F', 'f2': 'F', 'm': 'FM', 'mm': 'M',
         'to_up': 'F', 'gi': 'F'}


def norm(name):
    if not name.startswith('$'):
        name = '$' + name
    if name == '$':
        name = '$1'
    return name


# ---------------------------------------------------------------------------
# reference model
# ---------------------------------------------------------------------------

class Cell:
    def __init__(self):
        self.data = {}
        self.funcs = {}     # name -> list of entries {'label', 'obj'}
        self.excl = set()


class MNode:
    def __init__(self, kind, parent=None, members=None, linked=None,
                 conv=False):
        self.conv = conv            # plain nodes: naming convention in effect
        self.kind = kind
        self.parent = parent        # plain: parent node; linked: own parent
        self.members = members
        self.linked = linked
        self.cell = Cell() if kind == 'plain' else None
        self.impl = None


def ownlayer(n):
    if n.kind == 'plain':
        return [n]
    if n.kind == 'multi':
        out = []
        for m in n.members:
            out.extend(ownlayer(m))
        return out
    return ownlayer(n.linked)


def layers(n):
    """List of layers, nearest first; a layer is a list of plain nodes."""
    if n.kind == 'plain':
        return [[n]] + (layers(n.parent) if n.parent is not None else [])
    if n.kind == 'multi':
        per = [layers(m) for m in n.members]
        out = []
        for i in range(max(len(p) for p in per)):
            layer = []
            for p in per:
                if i < len(p):
                    layer.extend(p[i])
            out.append(layer)
        return out
    return layers(n.linked) + (layers(n.parent) if n.parent is not None else [])


def eff_conv(n):
    """convention a context hands on to its children (uniform per forest:
    every root is created with the same setting and linked contexts always
    have a parent when a convention is in use)"""
    if n.kind == 'plain':
        return n.conv
    if n.kind == 'multi':
        return eff_conv(n.members[0])
    return eff_conv(n.parent) if n.parent is not None else False


def camel(name):
    c = _conv[0]
    if c is None:
        from yaql.language import conventions
        c = _conv[0] = conventions.CamelCaseConvention()
    return c.convert_function_name(name)


_conv = [None]


def lookup_name(p, name, use_conv):
    name = name.rstrip('_')
    if use_conv and p.conv:
        return camel(name)
    return name


def m_get(n, name, own_only=False):
    name = norm(name)
    ls = layers(n)
    if own_only:
        ls = ls[:1]
    for layer in ls:
        for p in layer:
            if name in p.cell.data:
                return p.cell.data[name]
    return SENT


def m_contains(n, name):
    name = norm(name)
    return any(name in p.cell.data for p in ownlayer(n))


def m_keys(n):
    seen = []
    for p in ownlayer(n):
        for k in p.cell.data:
            if k not in seen:
                seen.append(k)
    return sorted(seen)


def m_get_functions(n, name, use_conv=False):
    labels = []
    objs = set()
    seen = set()
    excl = False
    for p in ownlayer(n):
        key = lookup_name(p, name, use_conv)
        if id(p) in seen:
            # a plain context listed twice contributes its set once
            # (union semantics)
            if key in p.cell.excl:
                excl = True
            continue
        seen.add(id(p))
        for e in p.cell.funcs.get(key, []):
            # the same definition object held by two members counts once
            if e['obj'] is not None and id(e['obj']) in objs:
                continue
            objs.add(id(e['obj']))
            labels.append(e['label'])
        if key in p.cell.excl:
            excl = True
    return sorted(labels), excl


def m_collect(n, name, kind=None, use_conv=False):
    """kind: None | 'F' (functions only) | 'M' (methods only) - the filter
    runner.call applies; exclusivity does not depend on it."""
    out = []
    for depth, layer in enumerate(layers(n)):
        labels = []
        objs = set()
        seen = set()
        excl = False
        for p in layer:
            key = lookup_name(p, name, use_conv)
            if key in p.cell.excl:
                excl = True
            if id(p) in seen:
                continue
            seen.add(id(p))
            for e in p.cell.funcs.get(key, []):
                if kind == 'NEAREST':
                    # a predicate that looks at its second argument: only
                    # the layer the lookup started at passes
                    if depth != 0:
                        continue
                elif kind == 'FARTHER':
                    if depth == 0:
                        continue
                elif kind is not None and \
                        kind not in KINDS[e['label'].split('/')[0]]:
                    continue
                if e['obj'] is not None and id(e['obj']) in objs:
                    continue
                objs.add(id(e['obj']))
                labels.append(e['label'])
        if labels:
            out.append(sorted(labels))
        if excl:
            break
    return out


# ---------------------------------------------------------------------------
# case generation
# ---------------------------------------------------------------------------

def gen_case(seeds, params, index):
    w = seeds.stream('workload')
    nops = w.randrange(6, params['max_ops'] + 1)
    # one naming convention per forest (how a convention is inherited through
    # multi / linked compositions is not part of the property)
    conv = w.random() < 0.5
    ops = [{'op': 'new', 'id': 0, 'conv': conv}]
    ids = [0]
    kinds = {0: 'plain'}
    nid = 1
    val = 100
    bias = w.random()
    for _ in range(nops):
        r = w.random()
        c = w.choice(ids)
        if len(ids) < 12 and r < 0.10:
            ops.append({'op': 'new', 'id': nid, 'conv': conv})
            kinds[nid] = 'plain'
            ids.append(nid)
            nid += 1
        elif len(ids) < 12 and r < 0.24:
            ops.append({'op': 'child', 'of': c, 'id': nid})
            kinds[nid] = 'child'
            ids.append(nid)
            nid += 1
        elif len(ids) < 12 and r < 0.32:
            k = w.choice([2, 2, 3])
            mem = [w.choice(ids) for _ in range(k)]
            ops.append({'op': 'multi', 'members': mem, 'id': nid})
            kinds[nid] = 'multi'
            ids.append(nid)
            nid += 1
        elif len(ids) < 12 and r < 0.40:
            par = w.choice(ids) if (conv or w.random() < 0.9) else None
            ops.append({'op': 'linked', 'parent': par, 'linked': w.choice(ids),
                        'id': nid})
            kinds[nid] = 'linked'
            ids.append(nid)
            nid += 1
        elif r < 0.62:
            val += 1
            v = None if w.random() < 0.15 else val
            ops.append({'op': 'set', 'ctx': c, 'name': w.choice(VAR_NAMES),
                        'value': v})
        elif r < 0.72:
            ops.append({'op': 'del', 'ctx': c, 'name': w.choice(VAR_NAMES)})
        elif r < 0.90:
            ops.append({'op': 'reg', 'ctx': c, 'func': w.randrange(8),
                        'name': w.choice([None, None, 'f', 'g']),
                        'exclusive': w.random() < (0.4 if bias < 0.5 else 0.15),
                        'prebuilt': w.random() < 0.5})
        elif r < 0.925:
            # the very same definition object registered once more somewhere
            ops.append({'op': 'reg_again', 'ctx': c, 'pick': w.randrange(1000)})
        elif r < 0.96:
            ops.append({'op': 'delfn', 'ctx': c, 'pick': w.randrange(1000),
                        'name': w.choice(['f', 'g', 'h'])})
        else:
            ops.append({'op': 'reg_invalid', 'ctx': c,
                        'name': w.choice([None, 'f', 'g']),
                        'exclusive': w.random() < 0.6})
    return {'ops': ops}


# ---------------------------------------------------------------------------
# execution against the real classes
# ---------------------------------------------------------------------------

def make_functions():
    """Fresh Python functions per run (yaql caches a definition template on
    the function object)."""
    from yaql.language import specs, yaqltypes
    ns = {}
    exec('def f(x):\n    return 0\n'
         'def g(x, y=1):\n    return 1\n'
         'def h_(x):\n    return 2\n'
         'def f2(*a):\n    return 3\n'
         'def m(x):\n    return 4\n'
         'def mm(x):\n    return 6\n'
         'def to_up(x):\n    return 7\n'
         'def gi(x):\n    return 8\n'
         'def bad(x):\n    return 5\n', ns)
    ns['mm'] = specs.method(specs.name('f')(ns['mm']))
    ns['gi'] = specs.name('get_it')(ns['gi'])
    ns['f2'] = specs.name('f')(ns['f2'])
    ns['m'] = specs.extension_method(specs.name('g')(ns['m']))
    ns['bad'] = specs.method(specs.parameter('x', yaqltypes.Lambda())(ns['bad']))
    return [ns['f'], ns['g'], ns['h_'], ns['f2'], ns['m'], ns['mm'],
            ns['to_up'], ns['gi']], ns['bad']


def label(fd):
    return '%s/%s' % (getattr(fd.payload, '__name__', '?'), fd.name)


def execute(case, stats):
    from yaql.language import contexts, specs
    funcs, bad = make_functions()
    nodes = {}          # id -> MNode (with .impl)
    viols = []
    shapes = []
    nfailed = 0
    nsteps = 0

    def fail(clause, detail, step):
        viols.append({'key': 'C17:' + clause, 'clause': clause,
                      'detail': dict(detail, step=step,
                                     op=case['ops'][step])})

    def plain_nodes():
        return [n for n in nodes.values() if n.kind == 'plain']

    for step, op in enumerate(case['ops']):
        k = op['op']
        refs = [op.get('of'), op.get('ctx'), op.get('linked')] + \
            list(op.get('members', []))
        if op.get('parent') is not None:
            refs.append(op['parent'])
        if any(r is not None and r not in nodes for r in refs):
            continue            # context removed by the shrinker
        nsteps += 1
        try:
            if k == 'new':
                n = MNode('plain', conv=bool(op.get('conv')))
                from yaql.language import conventions
                n.impl = contexts.Context(
                    convention=conventions.CamelCaseConvention()
                    if op.get('conv') else None)
                nodes[op['id']] = n
            elif k == 'child':
                p = nodes[op['of']]
                try:
                    impl = p.impl.create_child_context()
                except Exception as e:
                    nfailed += 1
                    stats.inc('fault.failed_child_creation')
                    stats.inc('fault.failed_op.' + type(e).__name__)
                    impl = None
                if impl is not None:
                    n = MNode('plain', parent=p, conv=eff_conv(p))
                    n.impl = impl
                    nodes[op['id']] = n
            elif k == 'multi':
                mem = [nodes[i] for i in op['members']]
                n = MNode('multi', members=mem)
                n.impl = contexts.MultiContext([m.impl for m in mem])
                nodes[op['id']] = n
            elif k == 'linked':
                par = nodes[op['parent']] if op['parent'] is not None else None
                n = MNode('linked', parent=par, linked=nodes[op['linked']])
                n.impl = contexts.LinkedContext(
                    par.impl if par is not None else None, n.linked.impl)
                nodes[op['id']] = n
            elif k == 'set':
                n = nodes[op['ctx']]
                n.impl[op['name']] = op['value']
                ownlayer(n)[0].cell.data[norm(op['name'])] = op['value']
            elif k == 'del':
                n = nodes[op['ctx']]
                name = norm(op['name'])
                raised = None
                try:
                    del n.impl[op['name']]
                except KeyError as e:
                    raised = e
                own = ownlayer(n)
                expect_raise = any(name not in p.cell.data for p in own) or \
                    len(set(map(id, own))) < len(own)
                if raised is None:
                    if expect_raise and all(name not in p.cell.data for p in own):
                        fail('delete-of-missing-variable-did-not-fail',
                             {'name': op['name']}, step)
                    for p in own:
                        p.cell.data.pop(name, None)
                else:
                    nfailed += 1
                    stats.inc('fault.failed_delete')
                    if not expect_raise:
                        fail('delete-of-defined-variable-failed',
                             {'name': op['name'], 'error': repr(raised)}, step)
                    if len(own) > 1 or n.kind != 'plain':
                        # narrow relaxation: adopt the observed state of
                        # this one name in the plain contexts of the layer
                        stats.inc('relaxation.partial_delete_adopted')
                        for p in own:
                            v = p.impl.get_data(op['name'], SENT, False)
                            had = name in p.cell.data
                            if v is SENT:
                                # removed from this member (or never there)
                                p.cell.data.pop(name, None)
                            elif not had or (p.cell.data[name] is not v and
                                             p.cell.data[name] != v):
                                # a failed delete may leave the variable in
                                # place or remove it; it never creates a
                                # definition or changes a value
                                fail('failed-delete-created-or-changed-a-'
                                     'variable', {'name': op['name'],
                                                  'member_had_it': had,
                                                  'value_now': repr(v)}, step)
            elif k == 'reg':
                n = nodes[op['ctx']]
                fn = funcs[op['func']]
                target = ownlayer(n)[0]
                kw = {}
                if op['name']:
                    kw['name'] = op['name']
                if op['prebuilt']:
                    spec = specs.get_function_definition(
                        fn, convention=n.impl.convention, **kw)
                    n.impl.register_function(spec, exclusive=op['exclusive'])
                    regname = spec.name
                    obj = spec
                else:
                    exp_name = op['name'] or (
                        camel(DEFAULT_NAMES[op['func']]) if target.conv
                        else DEFAULT_NAMES[op['func']])
                    before = set(target.impl.get_functions(exp_name)[0])
                    n.impl.register_function(fn, exclusive=op['exclusive'],
                                             **kw)
                    after = set(target.impl.get_functions(exp_name)[0])
                    new = list(after - before)
                    regname = exp_name
                    obj = new[0] if len(new) == 1 else None
                    if obj is None:
                        fail('registered-function-not-in-own-layer',
                             {'expected_name': exp_name,
                              'new_objects': len(new)}, step)
                lab = '%s/%s' % (fn.__name__, regname)
                target.cell.funcs.setdefault(regname, []).append(
                    {'label': lab, 'obj': obj})
                if op['exclusive']:
                    target.cell.excl.add(regname)
                    stats.inc('fault.exclusive_registration')
            elif k == 'reg_again':
                n = nodes[op['ctx']]
                cands = []
                for p in plain_nodes():
                    for lst in p.cell.funcs.values():
                        for e in lst:
                            if e['obj'] is not None:
                                cands.append(e)
                if cands:
                    e = cands[op['pick'] % len(cands)]
                    spec = e['obj']
                    n.impl.register_function(spec)
                    target = ownlayer(n)[0]
                    lst = target.cell.funcs.setdefault(spec.name, [])
                    if not any(x['obj'] is spec for x in lst):
                        lst.append({'label': e['label'], 'obj': spec})
                    stats.inc('fault.same_definition_registered_again')
            elif k == 'reg_invalid':
                n = nodes[op['ctx']]
                try:
                    kw = {}
                    if op.get('name'):
                        kw['name'] = op['name']
                    if op.get('exclusive'):
                        kw['exclusive'] = True
                    n.impl.register_function(bad, **kw)
                    fail('invalid-method-accepted', {}, step)
                except Exception as e:
                    nfailed += 1
                    stats.inc('fault.failed_op.' + type(e).__name__)
            elif k == 'delfn':
                n = nodes[op['ctx']]
                cands = []
                for p in plain_nodes():
                    for e in p.cell.funcs.get(op['name'], []):
                        if e['obj'] is not None:
                            cands.append(e['obj'])
                if cands:
                    spec = cands[op['pick'] % len(cands)]
                    n.impl.delete_function(spec)
                    seen = set()
                    for p in ownlayer(n):
                        if id(p) in seen:
                            continue
                        seen.add(id(p))
                        lst = p.cell.funcs.get(spec.name, [])
                        p.cell.funcs[spec.name] = [e for e in lst
                                                   if e['obj'] is not spec]
                        if spec.name in p.cell.excl:
                            # documented relaxation: adopt observed flag
                            if not p.impl.get_functions(spec.name)[1]:
                                p.cell.excl.discard(spec.name)
                    stats.inc('fault.delete_function')
        except Exception as e:
            # an operation that is not expected to fail raised
            nfailed += 1
            stats.inc('fault.failed_op.' + type(e).__name__)
            if k in ('multi', 'linked'):
                # construction failure: object does not exist, nothing to do
                pass
            else:
                fail('operation-raised-unexpectedly',
                     {'error': '%s: %s' % (type(e).__name__, e)}, step)
        # ---- probe everything ----
        bad_probe = compare_all(nodes, stats)
        if bad_probe:
            fail(bad_probe[0], bad_probe[1], step)
        if viols:
            break
    stats.inc('operations', nsteps)
    stats.inc('steps.operations', nsteps)
    stats.inc('failed_operations', nfailed)
    kinds = sorted(n.kind for n in nodes.values())
    shape = shape_of(nodes)
    stats.add('forest_shapes', shape)
    if len(set(kinds)) >= 2 and nsteps >= 5:
        stats.add('nontrivial', core.h64(shape, core.jdump(case['ops'])))
        if len(set(kinds)) == 3:
            stats.sample('sample', {'ops': case['ops'][:25],
                                    'forest': shape}, 2)
    stats.inc('probe.histories_with_all_three_classes',
              1 if len(set(kinds)) == 3 else 0)
    return viols


def shape_of(nodes):
    parts = []
    idx = {id(n): i for i, n in sorted(nodes.items())}
    for i, n in sorted(nodes.items()):
        if n.kind == 'plain':
            parts.append('%d:P(%s)' % (i, idx.get(id(n.parent), '-')))
        elif n.kind == 'multi':
            parts.append('%d:M(%s)' % (i, ','.join(
                str(idx[id(m)]) for m in n.members)))
        else:
            parts.append('%d:L(%s|%s)' % (i, idx.get(id(n.parent), '-'),
                                          idx[id(n.linked)]))
    return ' '.join(parts)


def compare_all(nodes, stats):
    nprobe = 0
    known = []
    for n in nodes.values():
        if n.kind == 'plain':
            for lst in n.cell.funcs.values():
                for e in lst:
                    if e['obj'] is not None:
                        known.append((e['obj'], n))
    try:
        for i, n in sorted(nodes.items()):
            c = n.impl
            for name in VAR_NAMES:
                exp = m_get(n, name)
                got = c[name]
                nprobe += 1
                if got != (None if exp is SENT else exp):
                    return ('variable-read-differs-from-nearest-layer',
                            {'ctx': i, 'name': name, 'expected':
                             None if exp is SENT else exp, 'got': got})
                got = c.get_data(name, SENT)
                if got is not exp and got != exp:
                    return ('get_data-default-differs',
                            {'ctx': i, 'name': name,
                             'expected': repr(exp), 'got': repr(got)})
                exp = m_get(n, name, own_only=True)
                got = c.get_data(name, SENT, False)
                if got is not exp and got != exp:
                    return ('own-layer-read-differs',
                            {'ctx': i, 'name': name,
                             'expected': repr(exp), 'got': repr(got)})
                exp = m_contains(n, name)
                got = name in c
                nprobe += 3
                if got != exp:
                    return ('membership-differs-from-own-layer',
                            {'ctx': i, 'name': name, 'expected': exp,
                             'got': got})
            exp = m_keys(n)
            got = sorted(c.keys())
            nprobe += 1
            if got != exp:
                return ('keys-differ-from-own-layer',
                        {'ctx': i, 'expected': exp, 'got': got})
            for fname in FN_QUERIES:
                exp = m_collect(n, fname)
                got = [sorted(label(fd) for fd in layer)
                       for layer in c.collect_functions(fname)]
                nprobe += 1
                if got != exp:
                    return ('collect_functions-differs-from-layers',
                            {'ctx': i, 'name': fname, 'expected': exp,
                             'got': got})
                exp = m_collect(n, fname, None, True)
                got = [sorted(label(fd) for fd in layer) for layer in
                       c.collect_functions(fname, use_convention=True)]
                nprobe += 1
                if got != exp:
                    return ('collect_functions-with-convention-differs',
                            {'ctx': i, 'name': fname, 'expected': exp,
                             'got': got})
                exp = m_get_functions(n, fname, True)
                fs, ex = c.get_functions(fname, use_convention=True)
                got = (sorted(label(fd) for fd in fs), bool(ex))
                nprobe += 1
                if got != exp:
                    return ('get_functions-with-convention-differs',
                            {'ctx': i, 'name': fname, 'expected': list(exp),
                             'got': list(got)})
                for kind, pred in (('F', lambda fd, ctx: fd.is_function),
                                   ('M', lambda fd, ctx: fd.is_method),
                                   ('NEAREST', lambda fd, ctx: ctx is c),
                                   ('FARTHER', lambda fd, ctx: ctx is not c)):
                    exp = m_collect(n, fname, kind)
                    got = [sorted(label(fd) for fd in layer)
                           for layer in c.collect_functions(fname, pred)]
                    nprobe += 1
                    if got != exp:
                        return ('collect_functions-with-kind-filter-differs',
                                {'ctx': i, 'name': fname, 'kind': kind,
                                 'expected': exp, 'got': got})
                exp = m_get_functions(n, fname)
                fs, ex = c.get_functions(fname)
                got = (sorted(label(fd) for fd in fs), bool(ex))
                nprobe += 1
                if got != exp:
                    return ('get_functions-differs-from-own-layer',
                            {'ctx': i, 'name': fname, 'expected': list(exp),
                             'got': list(got)})
            ownl = ownlayer(n)
            for spec, home in known[:12]:
                exp = any(any(e['obj'] is spec
                              for e in p.cell.funcs.get(spec.name, []))
                          for p in ownl)
                got = spec in c
                nprobe += 1
                if got != exp:
                    return ('function-membership-differs',
                            {'ctx': i, 'label': label(spec), 'expected': exp,
                             'got': got})
    finally:
        stats.inc('probes_compared', nprobe)
    return None


# ---------------------------------------------------------------------------

def shrink_candidates(case):
    ops = case['ops']
    # cut the tail first (the violation stops the run anyway)
    n = len(ops)
    step = n // 2
    while step >= 1:
        i = 1
        while i < len(ops):
            yield {'ops': ops[:i] + ops[i + step:]}
            i += step
        step //= 2
    for i, op in enumerate(ops):
        if op['op'] == 'multi' and len(op['members']) > 2:
            for j in range(len(op['members'])):
                no = dict(op)
                no['members'] = op['members'][:j] + op['members'][j + 1:]
                yield {'ops': ops[:i] + [no] + ops[i + 1:]}
        if op['op'] == 'reg':
            for fld, val in (('exclusive', False), ('prebuilt', True),
                             ('name', None), ('func', 0)):
                if op.get(fld) != val:
                    no = dict(op)
                    no[fld] = val
                    yield {'ops': ops[:i] + [no] + ops[i + 1:]}


def match_known(case, viol, entry):
    return False


def coverage(stats, params):
    return {
        'evaluations': stats.n('runs'),
        'distinct_nontrivial': stats.distinct('nontrivial'),
        'rule': 'a case = one seeded operation history (<= max_ops) over a '
                'forest of <= 12 contexts; after every operation all contexts '
                'x {6 variable spellings, 5 function names} are probed and '
                'compared with the flattened-layers model; distinct = '
                'distinct (forest shape, history) hash; non-trivial = at '
                'least two of the three context classes present and >= 5 '
                'operations executed',
        'samples': stats.samples.get('sample', []) or [{'note': 'none'}],
        'operations': stats.n('operations'),
        'probes_compared': stats.n('probes_compared'),
        'distinct_forest_shapes': stats.distinct('forest_shapes'),
        'simulated_time_steps': stats.counters('steps.'),
        'faults_fired': stats.counters('fault.'),
        'relaxations_used': stats.counters('relaxation.'),
        'probes': stats.counters('probe.'),
        'real_components': ['yaql.language.contexts (Context, MultiContext, '
                            'LinkedContext), specs.get_function_definition'],
        'stubbed_components': ['the host (operation history generator)'],
        'exhaustive': False,
    }
