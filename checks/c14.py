"""C14 - streaming operators consume only what they need from their source.

Simulated: the host's stream is an instrumented endless SimSource; the client
asks for the first k results of a pipeline of <= 4 streaming operators and
then cancels.  Faults: no EOF (always), a read error placed just beyond the
demand, a stall (pull budget) that turns "materialises its input" into a
finite, replayable event.  Oracle: an executable lazy reference model of each
operator (a few lines of Python generator each) run on its own instrumented
source gives the demand and the number of lambda applications the k results
require; the implementation may use at most one more of each.
"""
import re
import itertools

from sim import core, seams

ID = 'C14'
LEVEL = 'exploration'
ASSUMPTIONS = [
    'the lazy reference model (one Python generator per operator, written '
    'from the documented meaning) defines what k results require; the '
    'implementation is allowed +1 pull per source and +1 application per '
    'lambda on top of it',
    'pipelines whose model does not produce a verdict within 400 pulls '
    '(e.g. where(false) over an endless source) are counted as trivial',
    'if the k values differ from the model the case is counted as '
    'indeterminate (value correctness belongs to C13) and gives no verdict',
]

TIERS = {
    'quick': {'runs': 40000, 'chunk': 400, 'timeout_s': 900},
    'thorough': {'runs': 1600000, 'chunk': 4000, 'timeout_s': 6 * 3600,
                 'chunk_timeout_s': 3000},
}

MODEL_BUDGET = 400
_state = {}


# ---------------------------------------------------------------------------
# lambdas: spec -> (yaql text, python function)
# ---------------------------------------------------------------------------

def acc(t, var='$'):
    """element -> int accessor in yaql, for element type t"""
    return var if t == 'int' else var + '[0]'


def pred_text(p, lid, t):
    a = 'tick(%d, %s)' % (lid, '$') + ('' if t == 'int' else '[0]')
    k = p[0]
    if k == 'mod':
        return '%s mod %d = %d' % (a, p[1], p[2])
    if k == 'lt':
        return '%s < %d' % (a, p[1])
    if k == 'ge':
        return '%s >= %d' % (a, p[1])
    if k == 'ne':
        return '%s != %d' % (a, p[1])
    raise core.HarnessError(p)


def pred_fn(p, lid, t, tick):
    k = p[0]

    def val(x):
        x = tick(lid, x)
        return x if t == 'int' else x[0]
    if k == 'mod':
        return lambda x: val(x) % p[1] == p[2]
    if k == 'lt':
        return lambda x: val(x) < p[1]
    if k == 'ge':
        return lambda x: val(x) >= p[1]
    if k == 'ne':
        return lambda x: val(x) != p[1]
    raise core.HarnessError(p)


def sel_text(s, lid, t):
    a = 'tick(%d, $)' % lid + ('' if t == 'int' else '[0]')
    if s[0] == 'add':
        return '%s + %d' % (a, s[1])
    if s[0] == 'mul':
        return '%s * %d' % (a, s[1])
    if s[0] == 'id':
        return a
    if s[0] == 'pair':
        return '[%s, 7]' % a
    raise core.HarnessError(s)


def sel_fn(s, lid, t, tick):
    def val(x):
        x = tick(lid, x)
        return x if t == 'int' else x[0]
    if s[0] == 'add':
        return lambda x: val(x) + s[1]
    if s[0] == 'mul':
        return lambda x: val(x) * s[1]
    if s[0] == 'id':
        return val
    if s[0] == 'pair':
        return lambda x: [val(x), 7]
    raise core.HarnessError(s)


# ---------------------------------------------------------------------------
# reference model: lazy generators
# ---------------------------------------------------------------------------

def m_where(src, p):
    for x in src:
        if p(x):
            yield x


def m_select(src, f):
    for x in src:
        yield f(x)


def m_select_many(src, f):
    for x in src:
        inner = f(x)
        if isinstance(inner, (list, tuple)):
            for y in inner:
                yield y
        else:
            yield inner


def m_skip(src, n):
    it = iter(src)
    skipped = False
    while True:
        if not skipped:
            skipped = True
            for _ in range(n):
                try:
                    next(it)
                except StopIteration:
                    return
        try:
            yield next(it)
        except StopIteration:
            return


def m_take(src, n):
    if n <= 0:
        return
    i = 0
    for x in src:
        yield x
        i += 1
        if i >= n:
            return


def m_take_while(src, p):
    for x in src:
        if not p(x):
            return
        yield x


def m_skip_while(src, p):
    dropping = True
    for x in src:
        if dropping and p(x):
            continue
        dropping = False
        yield x


def m_append(src, vals):
    for x in src:
        yield x
    for v in vals:
        yield v


def m_concat(src, other):
    for x in src:
        yield x
    for x in other:
        yield x


def m_distinct(src, key=None):
    seen = set()
    for x in src:
        k = x if key is None else key(x)
        if k not in seen:
            seen.add(k)
            yield x


def m_enumerate(src, start):
    i = start
    for x in src:
        yield [i, x]
        i += 1


def m_zip(src, other):
    a, b = iter(src), iter(other)
    while True:
        try:
            x = next(a)
        except StopIteration:
            return
        try:
            y = next(b)
        except StopIteration:
            return
        yield [x, y]


def m_accumulate(src, f, seed):
    it = iter(src)
    if seed is None:
        try:
            total = next(it)
        except StopIteration:
            raise TypeError('empty')
    else:
        total = seed
    yield total
    for x in it:
        total = f(total, x)
        yield total


def m_insert(src, pos, val):
    i = -1
    for i, x in enumerate(src):
        if i == pos:
            yield val
        yield x
    if pos > i:
        yield val


def m_delete(src, pos, count):
    for i, x in enumerate(src):
        if count >= 0 and not (pos <= i < pos + count):
            yield x
        elif count < 0 and not i >= pos:
            yield x


def m_replace(src, pos, val, count):
    done = False
    for i, x in enumerate(src):
        if (count >= 0 and pos <= i < pos + count) or (count < 0 and i >= pos):
            if not done:
                done = True
                yield val
        else:
            yield x


def m_slice(src, n):
    it = iter(src)
    while True:
        chunk = []
        for _ in range(n):
            try:
                chunk.append(next(it))
            except StopIteration:
                break
        if not chunk:
            return
        yield chunk


def m_attr(src):
    for x in src:
        yield x['a']


def m_join(src, inner, p2, s2):
    for a in src:
        for b in inner:
            if p2(a, b):
                yield s2(a, b)


# ---------------------------------------------------------------------------
# pipelines
# ---------------------------------------------------------------------------

class Build:
    """Builds the yaql text and the model generator for one pipeline."""

    def __init__(self, case, tick, src, src2):
        self.case = case
        self.tick = tick
        self.text = {'method': '$obj.stream()', 'attr': '$obj.events'}.get(
            case.get('source_via'), '$src')
        self.gen = src
        self.src2 = src2
        self.t = 'dict' if case.get('dict_source') else 'int'
        self.lid = 0
        self.needs_obj = False

    def nl(self):
        self.lid += 1
        return self.lid

    def other(self, spec):
        if spec[0] == 'list':
            return '[%s]' % ', '.join(map(str, spec[1])), list(spec[1])
        return '$src2', self.src2

    def add(self, op):
        k = op[0]
        t = self.t
        tick = self.tick
        if k == 'attr':
            self.text += '.a'
            self.gen = m_attr(self.gen)
            self.t = 'int'
            return
        if t == 'dict':
            raise ValueError('dict source needs attr first')
        if k == 'where':
            lid = self.nl()
            self.text += '.where(%s)' % pred_text(op[1], lid, t)
            self.gen = m_where(self.gen, pred_fn(op[1], lid, t, tick))
        elif k == 'select':
            lid = self.nl()
            self.text += '.select(%s)' % sel_text(op[1], lid, t)
            self.gen = m_select(self.gen, sel_fn(op[1], lid, t, tick))
            self.t = 'int'
        elif k == 'selectMany':
            lid = self.nl()
            self.text += '.selectMany(%s)' % sel_text(op[1], lid, t)
            self.gen = m_select_many(self.gen, sel_fn(op[1], lid, t, tick))
            self.t = 'int'
        elif k == 'skip':
            self.text += '.skip(%d)' % op[1]
            self.gen = m_skip(self.gen, op[1])
        elif k == 'take':
            self.text += '.take(%d)' % op[1]
            self.gen = m_take(self.gen, op[1])
        elif k == 'takeWhile':
            lid = self.nl()
            self.text += '.takeWhile(%s)' % pred_text(op[1], lid, t)
            self.gen = m_take_while(self.gen, pred_fn(op[1], lid, t, tick))
        elif k == 'skipWhile':
            lid = self.nl()
            self.text += '.skipWhile(%s)' % pred_text(op[1], lid, t)
            self.gen = m_skip_while(self.gen, pred_fn(op[1], lid, t, tick))
        elif k == 'append':
            vals = op[1] if t == 'int' else [[v, v] for v in op[1]]
            self.text += '.append(%s)' % ', '.join(
                str(v).replace(' ', '') for v in vals)
            self.gen = m_append(self.gen, vals)
        elif k == 'concat':
            if t != 'int':
                raise ValueError('concat on seq')
            txt, oth = self.other(op[1])
            self.text += '.concat(%s)' % txt
            self.gen = m_concat(self.gen, oth)
        elif k == 'concatLeft':
            if t != 'int':
                raise ValueError('concatLeft on seq')
            self.text = '[%s].concat(%s)' % (', '.join(map(str, op[1])),
                                             self.text)
            self.gen = m_concat(list(op[1]), self.gen)
        elif k == 'distinct':
            if t != 'int':
                raise ValueError('distinct on seq')
            self.text += '.distinct()'
            self.gen = m_distinct(self.gen)
        elif k == 'distinctBy':
            lid = self.nl()
            s = ['mul', 1] if op[1][0] == 'pair' else op[1]
            self.text += '.distinct(%s)' % sel_text(s, lid, t)
            self.gen = m_distinct(self.gen, sel_fn(s, lid, t, tick))
        elif k == 'enumerate':
            if t != 'int':
                raise ValueError('type')
            self.text += '.enumerate(%d)' % op[1]
            self.gen = m_enumerate(self.gen, op[1])
            self.t = 'seq'
        elif k == 'zip':
            if t != 'int':
                raise ValueError('type')
            txt, oth = self.other(op[1])
            self.text += '.zip(%s)' % txt
            self.gen = m_zip(self.gen, oth)
            self.t = 'seq'
        elif k == 'zipLeft':
            # a finite list first, the pipeline second: the list ends first
            # and nothing more is asked of the pipeline
            if t != 'int':
                raise ValueError('type')
            self.text = '[%s].zip(%s)' % (', '.join(map(str, op[1])),
                                          self.text)
            self.gen = m_zip(list(op[1]), self.gen)
            self.t = 'seq'
        elif k == 'accumulate':
            if t != 'int':
                raise ValueError('type')
            lid = self.nl()
            seed = op[1]
            self.text += '.accumulate(tick(%d, $1) + $2%s)' % (
                lid, '' if seed is None else ', %d' % seed)
            self.gen = m_accumulate(self.gen,
                                    lambda a, b: tick(lid, a) + b, seed)
        elif k == 'insert':
            val = op[2] if t == 'int' else [op[2], op[2]]
            self.text += '.insert(%d, %s)' % (op[1], str(val).replace(' ', ''))
            self.gen = m_insert(self.gen, op[1], val)
        elif k == 'delete':
            self.text += '.delete(%d, %d)' % (op[1], op[2])
            self.gen = m_delete(self.gen, op[1], op[2])
        elif k == 'replace':
            val = op[2] if t == 'int' else [op[2], op[2]]
            self.text += '.replace(%d, %s, %d)' % (
                op[1], str(val).replace(' ', ''), op[3])
            self.gen = m_replace(self.gen, op[1], val, op[3])
        elif k == 'slice':
            if t != 'int':
                raise ValueError('type')
            self.text += '.slice(%d)' % op[1]
            self.gen = m_slice(self.gen, op[1])
            self.t = 'seq'
        elif k == 'memorize':
            self.text += '.memorize()'
        elif k == 'viaDef':
            # the pipeline so far is the ARGUMENT of a function defined in
            # the expression; its body filters what it is given
            lid = self.nl()
            self.text = '(def(pf%d, $.where(%s)) -> pf%d(%s))' % (
                lid, pred_text(op[1], lid, t), lid, self.text)
            self.gen = m_where(self.gen, pred_fn(op[1], lid, t, tick))
        elif k == 'hostPass':
            # ... the argument of a method of a yaqlized host object that
            # hands it back lazily
            self.text = '$obj.passthru(%s)' % self.text
            self.needs_obj = True
        elif k == 'hostHead':
            self.text = '$obj.head(%s, %d)' % (self.text, op[1])
            self.gen = m_take(self.gen, op[1])
            self.needs_obj = True
        elif k == 'whereLazy':
            # a predicate whose value is itself a lazy sequence: it is true
            # as it stands, nothing of it is computed
            lid = self.nl()
            self.text += '.where([$, $].select(tick(%d, $)))' % lid
        elif k == 'join':
            if t != 'int':
                raise ValueError('type')
            lid = self.nl()
            inner = list(op[1])
            m = op[2]
            self.text += ('.join([%s], (tick(%d, $1) + $2) mod %d = 0, '
                          '$1 * 100 + $2)' % (', '.join(map(str, inner)),
                                              lid, m))
            self.gen = m_join(self.gen, inner,
                              lambda a, b: (tick(lid, a) + b) % m == 0,
                              lambda a, b: a * 100 + b)
        else:
            raise core.HarnessError('op %r' % (op,))

    def terminal(self, term):
        """returns python callable computing the model's scalar"""
        k = term[0]
        t = self.t
        tick = self.tick
        g = self.gen
        if k == 'first':
            self.text += '.first()'
            return lambda: next(iter(g))
        if k == 'any':
            if term[1] is None:
                self.text += '.any()'
                return lambda: any(True for _ in g)
            lid = self.nl()
            self.text += '.any(%s)' % pred_text(term[1], lid, t)
            p = pred_fn(term[1], lid, t, tick)
            return lambda: any(p(x) for x in g)
        if k == 'all':
            lid = self.nl()
            self.text += '.all(%s)' % pred_text(term[1], lid, t)
            p = pred_fn(term[1], lid, t, tick)
            return lambda: all(p(x) for x in g)
        if k == 'indexOf':
            if t != 'int':
                raise ValueError('type')
            self.text += '.indexOf(%d)' % term[1]

            def f():
                for i, x in enumerate(g):
                    if x == term[1]:
                        return i
                return -1
            return f
        if k == 'indexWhere':
            lid = self.nl()
            self.text += '.indexWhere(%s)' % pred_text(term[1], lid, t)
            p = pred_fn(term[1], lid, t, tick)

            def f():
                for i, x in enumerate(g):
                    if p(x):
                        return i
                return -1
            return f
        raise core.HarnessError(term)


VALUE_FNS = {
    'id': lambda i: i,
    'mod5': lambda i: i % 5,
    'mix': lambda i: (i * 7) % 11,
    'rep': lambda i: i // 3,
}


def gen_pred(w):
    r = w.random()
    if r < 0.5:
        m = w.choice([2, 3, 4, 5])
        return ['mod', m, w.randrange(m)]
    if r < 0.7:
        return ['lt', w.choice([0, 1, 3, 5, 9])]
    if r < 0.9:
        return ['ge', w.choice([0, 1, 3, 5, 9])]
    return ['ne', w.choice([0, 2, 4])]


def gen_sel(w):
    return w.choice([['add', 1], ['add', 10], ['mul', 2], ['mul', 3], ['id']])


def gen_other(w):
    if w.random() < 0.5:
        return ['src2']
    return ['list', [w.randrange(20) for _ in range(w.choice([0, 1, 2, 3, 5]))]]


def gen_op(w, t):
    int_ops = ['where', 'where', 'select', 'select', 'selectMany', 'skip',
               'take', 'takeWhile', 'skipWhile', 'append', 'concat',
               'concatLeft', 'distinct', 'distinctBy', 'enumerate', 'zip',
               'zipLeft', 'accumulate', 'insert', 'delete', 'replace', 'slice',
               'memorize', 'join', 'viaDef', 'hostPass', 'hostHead',
               'whereLazy']
    seq_ops = ['where', 'select', 'selectMany', 'skip', 'take', 'takeWhile',
               'skipWhile', 'append', 'distinctBy', 'insert', 'delete',
               'replace', 'memorize', 'viaDef', 'hostPass', 'whereLazy']
    k = w.choice(int_ops if t == 'int' else seq_ops)
    if k in ('where', 'takeWhile', 'skipWhile'):
        return [k, gen_pred(w)]
    if k == 'select':
        return [k, gen_sel(w)]
    if k == 'selectMany':
        return [k, w.choice([['pair'], ['pair'], ['id'], ['add', 1]])]
    if k in ('skip', 'take'):
        return [k, w.choice([0, 1, 2, 3, 5, 8, 20, 40])]
    if k == 'append':
        return [k, [w.randrange(50) for _ in range(w.choice([1, 2]))]]
    if k in ('concat', 'zip'):
        return [k, gen_other(w)]
    if k in ('concatLeft', 'zipLeft'):
        return [k, [w.randrange(50) for _ in range(w.choice([0, 1, 2, 3]))]]
    if k == 'distinct':
        return [k]
    if k == 'distinctBy':
        return [k, gen_sel(w)]
    if k == 'enumerate':
        return [k, w.choice([0, 1, 10])]
    if k == 'accumulate':
        return [k, w.choice([None, 0, 5])]
    if k == 'insert':
        return [k, w.choice([0, 1, 2, 5, 30]), w.randrange(100, 200)]
    if k == 'delete':
        return [k, w.choice([0, 1, 2, 5]), w.choice([1, 1, 2, 3, 10, -1])]
    if k == 'replace':
        return [k, w.choice([0, 1, 2, 5]), w.randrange(100, 200),
                w.choice([1, 1, 2, 3, 10, 50, -1])]
    if k == 'slice':
        return [k, w.choice([1, 2, 3, 7])]
    if k in ('memorize', 'hostPass', 'whereLazy'):
        return [k]
    if k == 'viaDef':
        return [k, gen_pred(w)]
    if k == 'hostHead':
        return [k, w.choice([0, 1, 2, 3, 5])]
    if k == 'join':
        return [k, [w.randrange(10) for _ in range(w.choice([1, 2, 3]))],
                w.choice([2, 3])]
    raise core.HarnessError(k)


def type_after(op, t):
    if op[0] in ('enumerate', 'zip', 'zipLeft', 'slice'):
        return 'seq'
    if op[0] in ('select', 'selectMany', 'attr'):
        return 'int'
    return t


def gen_case(seeds, params, index):
    w = seeds.stream('workload')
    f = seeds.stream('faults')
    nops = w.choice([1, 1, 2, 2, 3, 3, 4])
    ops = []
    dict_source = w.random() < 0.1
    t = 'int'
    if dict_source:
        ops.append(['attr'])
    while len(ops) < nops:
        op = gen_op(w, t)
        ops.append(op)
        t = type_after(op, t)
    mode = w.choice(['next', 'next', 'take', 'terminal'])
    term = None
    if mode == 'terminal':
        k = 1
        tk = w.choice(['first', 'any', 'any0', 'all', 'indexOf', 'indexWhere'])
        if tk == 'first':
            term = ['first']
        elif tk == 'any0':
            term = ['any', None]
        elif tk == 'indexOf':
            term = ['indexOf', w.randrange(0, 12)] if t == 'int' else ['first']
        else:
            term = [tk, gen_pred(w)]
    else:
        k = w.choice([0, 0, 1, 1, 2, 3, 4, 5, 6])
    fault = f.choice(['budget', 'budget', 'read_error', 'read_error_far'])
    if w.random() < 0.06:
        # a pipeline whose LAST call cannot be resolved: nothing was asked
        # for, so nothing may be consumed while the error is produced
        mode = 'failing'
        k = 0
        term = w.choice([['nosuch'], ['badarg'], ['badkw']])
    return {'ops': ops, 'dict_source': dict_source, 'mode': mode, 'k': k,
            'term': term, 'value_fn': w.choice(['id', 'id', 'mod5', 'mix', 'rep']),
            'value_fn2': w.choice(['id', 'mod5']),
            'limit': w.choice([-1, -1, 1000, 5000]),
            'via_data': w.random() < 0.3,
            'reiterable': w.random() < 0.15,
            # the stream handed out by a yaqlized host object (method result
            # or attribute), results auto-yaqlized
            'source_via': w.choice([None] * 8 + ['method', 'attr']),
            'fault': fault}


# ---------------------------------------------------------------------------
# execution
# ---------------------------------------------------------------------------

def engines(limit, convert_output):
    key = (limit, convert_output)
    e = _state.get(key)
    if e is None:
        import yaql
        opts = {'yaql.convertOutputData': convert_output}
        if limit >= 0:
            opts['yaql.limitIterators'] = limit
        e = _state[key] = yaql.YaqlFactory().create(opts)
    return e


def base_context():
    c = _state.get('ctx')
    if c is None:
        import yaql
        c = _state['ctx'] = yaql.create_context()
        _state['ticklog'] = []

        def tick(lid, x):
            log = _state['ticklog']
            log.append(lid)
            if len(log) > _state.get('tick_budget', 1 << 30):
                # stall guard: an operator that keeps applying a lambda
                # without ever needing another source element
                raise core.SimBudgetExceeded('lambda application budget')
            return x
        c.register_function(tick, name='tick')
    return c


def _as_generator(src):
    # a plain generator: cannot take attributes, so auto-yaqlization of the
    # result leaves it an ordinary lazy sequence
    for x in src:
        yield x


class StreamOwner:
    def __init__(self, src):
        self.events = _as_generator(src)
        self._src = src

    def stream(self):
        return _as_generator(self._src)

    def passthru(self, seq):
        return _as_generator(seq)

    def head(self, seq, n):
        import itertools
        return _as_generator(itertools.islice(seq, n))


def make_stream_owner(src):
    from yaql import yaqlization
    o = StreamOwner(src)
    yaqlization.yaqlize(o, auto_yaqlize_result=True)
    return o


class Reiterable:
    def __init__(self, src):
        self._src = src

    def __iter__(self):
        return iter(self._src)


def norm(v):
    if isinstance(v, (list, tuple)):
        return [norm(x) for x in v]
    if isinstance(v, dict):
        return {str(k): norm(x) for k, x in v.items()}
    return v


def run_model(case):
    """-> (status, results, demand1, demand2, ticks dict)"""
    ticks = {}

    def tick(lid, x):
        ticks[lid] = ticks.get(lid, 0) + 1
        return x
    vf = VALUE_FNS[case['value_fn']]
    if case.get('dict_source'):
        value = lambda i: {'a': vf(i)}  # noqa: E731
    else:
        value = vf
    src = seams.SimSource('model.src', value, budget=MODEL_BUDGET)
    src2 = seams.SimSource('model.src2', VALUE_FNS[case['value_fn2']],
                           budget=MODEL_BUDGET)
    b = Build(case, tick, src, src2)
    for op in case['ops']:
        b.add(op)
    results = []
    try:
        if case['mode'] == 'failing':
            b.text += {'nosuch': '.noSuchMethod(1)', 'badarg': '.take(abc)',
                       'badkw': '.skip(nope => 1)'}[case['term'][0]]
            results = ['resolution-error']
        elif case['mode'] == 'terminal':
            f = b.terminal(case['term'])
            try:
                results = ['scalar', f()]
            except StopIteration:
                results = ['stop']
        else:
            g = b.gen
            if case['mode'] == 'take':
                b.text += '.take(%d)' % case['k']
                g = m_take(g, case['k'])
                results = list(g)
            else:
                it = iter(g)
                for _ in range(case['k']):
                    try:
                        results.append(next(it))
                    except StopIteration:
                        results.append('<stop>')
                        break
    except core.SimBudgetExceeded:
        return 'model-nonterminating', None, 0, 0, {}, b.text
    return 'ok', norm(results), src.pulls, src2.pulls, ticks, b.text


def execute(case, stats):
    from yaql.language import utils
    from yaql.language import exceptions as E
    try:
        status, mres, d1, d2, mticks, text = run_model(case)
    except (ValueError, TypeError, KeyError, IndexError, ZeroDivisionError):
        stats.inc('status.invalid-pipeline')
        return []
    stats.inc('status.' + status)
    if status != 'ok':
        return []
    ctx0 = base_context()
    engine = engines(case['limit'], case['mode'] != 'next')
    vf = VALUE_FNS[case['value_fn']]
    if case.get('dict_source'):
        value = lambda i: utils.FrozenDict({'a': vf(i)})  # noqa: E731
    else:
        value = vf
    fault = case.get('fault', 'budget')
    fail1 = fail2 = None
    if fault == 'read_error':
        fail1, fail2 = d1 + 1, d2 + 1
    elif fault == 'read_error_far':
        fail1, fail2 = d1 + 3, d2 + 3
    src = seams.SimSource('src', value, budget=d1 + 1 + 64, fail_at=fail1)
    src2 = seams.SimSource('src2', VALUE_FNS[case['value_fn2']],
                           budget=d2 + 1 + 64, fail_at=fail2)
    ctx = ctx0.create_child_context()
    ctx['src2'] = src2
    data_src = src
    if case.get('source_via') or '$obj.' in text:
        ctx['obj'] = make_stream_owner(src)
    if case.get('reiterable'):
        # an iterable that is not an iterator (only __iter__), as hosts pass
        # for re-readable streams
        data_src = Reiterable(src)
    skey = (text, case['limit'], case['mode'] != 'next',
            bool(case.get('via_data')) and not case.get('source_via'))
    st = _state.setdefault('stmts', {}).get(skey)
    if st is None:
        st = engine(re.sub(r'\$src(?![0-9A-Za-z_])', '$', text)
                    if case.get('via_data') and not case.get('source_via')
                    else text)
        _state['stmts'][skey] = st
    del _state['ticklog'][:]
    _state['tick_budget'] = sum(mticks.values()) + len(mticks) + 64
    got = None
    err = None
    try:
        if case.get('via_data') and not case.get('source_via'):
            r = st.evaluate(data=data_src, context=ctx)
        else:
            ctx['src'] = data_src
            r = st.evaluate(context=ctx)
        if case['mode'] == 'failing':
            got = ['no-error', repr(r)[:80]]
        elif case['mode'] == 'terminal':
            got = ['scalar', r]
        elif case['mode'] == 'take':
            got = list(r)
        else:
            got = []
            it = iter(r)
            for _ in range(case['k']):
                try:
                    got.append(next(it))
                except StopIteration:
                    got.append('<stop>')
                    break
            if hasattr(it, 'close'):
                it.close()          # the client cancels
                stats.inc('fault.client_cancelled_lazy_result')
    except core.SimBudgetExceeded as e:
        err = ['budget', str(e)]
    except seams.SimIOError as e:
        err = ['read_error', str(e)]
    except StopIteration:
        got = ['stop']
    except E.YaqlException as e:
        if case['mode'] == 'failing' and type(e).__name__ in (
                'NoMethodRegisteredException', 'NoMatchingMethodException',
                'NoFunctionRegisteredException',
                'NoMatchingFunctionException'):
            got = ['resolution-error']
            stats.inc('probe.failing_tail_call')
        else:
            err = ['yaql', type(e).__name__ + ': ' + str(e)]
    except Exception as e:
        err = ['exc', type(e).__name__ + ': ' + str(e)]
    ticks = {}
    for lid in _state['ticklog']:
        ticks[lid] = ticks.get(lid, 0) + 1
    viols = []
    detail = {'expr': text, 'k': case['k'], 'mode': case['mode'],
              'pulls': [src.pulls, src2.pulls], 'model_demand': [d1, d2],
              'ticks': ticks, 'model_ticks': mticks, 'error': err,
              'limitIterators': case['limit'], 'fault': fault}
    over_pull = src.pulls > d1 + 1 or src2.pulls > d2 + 1 or \
        (err and err[0] == 'budget')
    over_tick = any(n > mticks.get(lid, 0) + 1 for lid, n in ticks.items())
    stats.inc('pipelines')
    stats.inc('steps.pulls', src.pulls + src2.pulls)
    stats.inc('steps.lambda_applications', sum(ticks.values()))
    stats.inc('fault.no_eof_endless_source')
    if fault != 'budget':
        stats.inc('fault.read_error_armed_beyond_demand')
    if case['k'] == 0 and case['mode'] != 'terminal':
        stats.inc('probe.k_zero')
    if d2 > 0:
        stats.inc('probe.second_source_used')
    if over_pull:
        viols.append({'key': 'C14:source-consumed-beyond-demand',
                      'clause': 'pulls <= demand of the k results + 1',
                      'detail': detail})
    elif err and err[0] == 'read_error':
        viols.append({'key': 'C14:read-error-beyond-demand-surfaced',
                      'clause': 'a read error placed beyond the demand is '
                                'never seen', 'detail': detail})
    elif over_tick:
        viols.append({'key': 'C14:lambda-applied-beyond-demand',
                      'clause': 'lambda applications <= what the k results '
                                'require + 1', 'detail': detail})
    elif err is not None:
        # the model produced values but the implementation raised: not a
        # consumption verdict
        stats.inc('indeterminate.impl_raised')
        stats.sample('indeterminate', detail, 3)
    elif norm(got) != mres:
        stats.inc('indeterminate.value_mismatch')
        detail['got'] = norm(got)
        detail['model'] = mres
        stats.sample('indeterminate', detail, 3)
    else:
        sig = core.jdump([o[0] for o in case['ops']] +
                         [case['mode'], (case['term'] or [''])[0]])
        stats.add('op_sequences', sig)
        stats.add('nontrivial', core.h64(sig, case['k'], d1, d2))
        if src.pulls == d1 + 1 or src2.pulls == d2 + 1:
            stats.inc('probe.slack_of_one_used')
        stats.sample('sample', {'expr': text, 'k': case['k'],
                                'mode': case['mode'], 'pulls': src.pulls,
                                'model_demand': d1, 'ticks': ticks}, 3)
    return viols


# ---------------------------------------------------------------------------

def shrink_candidates(case):
    def mk(**kw):
        c = {k: v for k, v in case.items() if k != 'shrink'}
        c.update(kw)
        return c
    ops = case['ops']
    if len(ops) > 1:
        for i in range(len(ops)):
            yield mk(ops=ops[:i] + ops[i + 1:])
    if case['mode'] != 'terminal':
        for k in range(case['k']):
            yield mk(k=k)
        if case['mode'] == 'take':
            yield mk(mode='next')
    if case['limit'] != -1:
        yield mk(limit=-1)
    if case['value_fn'] != 'id':
        yield mk(value_fn='id')
    if case.get('via_data'):
        yield mk(via_data=False)
    if case.get('fault') != 'budget':
        yield mk(fault='budget')
    for i, op in enumerate(ops):
        for j in range(1, len(op)):
            if isinstance(op[j], int) and op[j] not in (0, 1):
                for v in (0, 1, op[j] // 2):
                    no = list(op)
                    no[j] = v
                    yield mk(ops=ops[:i] + [no] + ops[i + 1:])


def match_known(case, viol, entry):
    return False


def coverage(stats, params):
    return {
        'evaluations': stats.n('pipelines'),
        'distinct_nontrivial': stats.distinct('nontrivial'),
        'rule': 'a case = (pipeline of <= 4 streaming operators with '
                'generated lambdas, consumption mode next()*k+cancel | '
                '.take(k) | scalar terminal, k, source value function, '
                'limitIterators, fault); distinct = distinct (operator '
                'sequence, k, model demand) triple; non-trivial = the model '
                'terminated, the implementation delivered the same k values '
                'and the pull / tick counts were compared',
        'samples': stats.samples.get('sample', []) or [{'note': 'none'}],
        'distinct_operator_sequences': stats.distinct('op_sequences'),
        'status': stats.counters('status.'),
        'indeterminate': stats.counters('indeterminate.'),
        'indeterminate_samples': stats.samples.get('indeterminate', []),
        'simulated_time_steps': stats.counters('steps.'),
        'faults_fired': stats.counters('fault.'),
        'probes': stats.counters('probe.'),
        'real_components': ['yaql.standard_library.queries / collections '
                            '(operators), yaqltypes.Iterable / Lambda, '
                            'utils.limit_iterable / memorize, finalizer'],
        'stubbed_components': ['host stream (SimSource: endless, budgeted, '
                               'failing)', 'the client (takes k results, '
                               'cancels)', 'tick() probe function'],
        'exhaustive': False,
    }


def probe_warnings(stats):
    out = []
    if stats.n('indeterminate.value_mismatch'):
        out.append('value mismatches between model and implementation: %d '
                   '(see indeterminate_samples)'
                   % stats.n('indeterminate.value_mismatch'))
    return out
