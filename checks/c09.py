"""C09 - evaluation has no side effects on host data, context or statement.

Simulated system: a host that owns mutable documents, a prepared context
chain (standard library -> host layer P with variables and host functions ->
optional persistent child C) and a pool of statements, and issues a history
of evaluations.  Faults: evaluations aborted at arbitrary points (a host
stream failing at position p, a host probe function raising on its n-th call,
an iterator limit / memory quota tripping part-way, a lazy result abandoned
after j items).  After every operation: every document deeply equals its
pristine snapshot, every context of the host chain has the same variables,
function sets and exclusive names (except `$` of the context handed to
evaluate), converted results alias no host container (identity, then
mutate-and-recheck), and every fault-free occurrence of the same (statement,
document, mode) yields the result of its first occurrence - including the
ones that follow aborted evaluations.
"""
import itertools
import json
import os

from sim import core, seams, ser, synth

ID = 'C09'
LEVEL = 'exploration'
ASSUMPTIONS = [
    'context snapshots use the public context interface only (keys, own-layer '
    'reads, get_functions for every name registered anywhere in the chain)',
    'aliasing is checked for converted results (yaql.convertOutputData on): '
    'with output conversion off yaql hands back unfinalised values by design',
    'single-use host iterators are only used as injected fault streams and '
    'are excluded from the "data unchanged" snapshot',
    'statements calling random()/now()/localtz() are excluded from the pool',
    'fault-free and fault-injecting histories are separate batches; the only '
    'relaxation under faults is that an aborted evaluation may raise',
]

TIERS = {
    'quick': {'runs': 4800, 'chunk': 60, 'timeout_s': 900, 'max_ops': 12},
    'thorough': {'runs': 200000, 'chunk': 500, 'timeout_s': 6 * 3600,
                 'max_ops': 16, 'chunk_timeout_s': 3000},
}

_state = {}
SENT = object()
ENDLESS_MAKERS = ('generate', 'generateMany', 'cycle', 'repeat', 'sequence')
CALL_BUDGET = 1500000
_calls = [0]


def call_tracer(prefix):
    def tr(frame, event, arg):
        if frame.f_code.co_filename.startswith(prefix):
            _calls[0] += 1
            if _calls[0] > CALL_BUDGET:
                raise core.SimBudgetExceeded('call-event budget exhausted')
        return None
    return tr


class HostProbeError(Exception):
    pass


# ---------------------------------------------------------------------------
# corpus, statement pool
# ---------------------------------------------------------------------------

def load_corpus():
    c = _state.get('corpus')
    if c is None:
        path = os.path.join(core.VERIF, 'corpus', 'test_expressions.json')
        raw = json.load(open(path))
        c = [e for e in raw
             if not any(b in e['expr'] for b in ('random', 'now(', 'localtz',
                                                  'assert'))]
        _state['corpus'] = c
    return c


HAND = [
    "let(a => $.list, b => 1) -> $a.len() + $b",
    "let(x => $) -> $x",
    "[1, 2, 3].select(let(y => $) -> $y * 2)",
    "with(2, 3) -> $1 + $2",
    "$.list.unpack(a, b, c) -> [$a, $b, $c]",
    "[1, 2].unpack(a, b) -> $a + $b",
    "def(sq, $ * $) -> sq(3)",
    "def(cnt, $.list.len()) -> cnt($)",
    "def(twice, [$, $]) -> $.list.select(twice($))",
    "$.list", "$.dict", "$.set", "$.nested", "$.recs", "$", "$.strs",
    "$.list + [100]", "$.list + $.list", "[0] + $.list",
    "$.dict + {zz => 1}", "$.dict.set(zz, 1)", "$.dict.set({a => 9, q => 8})",
    "$.dict.delete(a)", "$.dict.deleteAll([a, b])", "$.dict.remove(a)",
    "$.list.insert(0, 99)", "$.list.insert(1, 98)", "$.list.insertMany(1, [7, 8])",
    "$.list.delete(0)", "$.list.delete(0, 2)", "$.list.replace(0, 55)",
    "$.list.replaceMany(0, [5, 6], 2)", "$.list.orderBy($)",
    "$.list.orderByDescending($)", "$.list.reverse()", "$.list.distinct()",
    "$.list.append(1, 2)", "$.list.skip(1)", "$.list.take(2)",
    "$.list.select($ * 2)", "$.list.where($ > 1)", "$.list.sum()",
    "$.list.toSet()", "$.set.add(77)", "$.set.remove(1)", "$.set.union([9])",
    "$.set.toList().orderBy($)", "$.nested.select($.len())",
    "$.nested.selectMany($)", "$.nested.select($ + [0])", "$.nested[0]",
    "$.nested.flatten()", "$.recs.select($.name)", "$.recs.where($.v > 1)",
    "$.recs.select($.set(v, 0))", "$.recs.groupBy($.v)", "$.recs.orderBy($.v)",
    "$.recs.toDict($.name, $.v)", "$.recs.select($ + {k => 1})",
    "$.recs.first().set(name, q)", "$.dict.keys()", "$.dict.values()",
    "$.dict.items()", "dict($.dict.items())", "$.dict.b", "$.dict.c",
    "$.dict.mergeWith({c => {y => 2}, b => [5]})", "$.dict.b + [3]",
    "$.dict.c + {w => 1}", "$.strs.join(',')", "$.strs.select($.toUpper())",
    "$.list.zip($.strs)", "$.list.enumerate()", "$.list.slice(2)",
    "$.list.memorize()", "$.list.accumulate($1 + $2)", "$.list.aggregate($1 + $2, 0)",
    "$.list.indexOf(2)", "$.list.len()", "$.list.first()", "$.list.last()",
    "$.list.splitAt(1)", "$.list.splitWhere($ = 2)", "$.list.sliceWhere($ > 1)",
    "list($.list)", "list($.list, $.nested)", "set($.list)", "$.list.toList()",
    "$.list * 2", "2 * $.list", "$.list = $.list", "$.list in $.nested",
    "$.list.contains(1)", "$.dict.containsKey(a)", "$.dict.get(b)",
    "$.dict.get(zz, $.list)", "$.s + 'x'", "$.s.toUpper()", "$.n + 1",
    "$hostvar", "$hostvar + [1]", "$hostvar.insert(0, 5)", "$hostvar.len()",
    "$hostdict", "$hostdict.set(z, 1)", "$hostdict + {y => 2}",
    "hostlist()", "hostlist().insert(0, 1)", "hostlist() + [4]",
    "hostset($.list)", "hostset($.list).len()", "ctxset($.dict)",
    "[hostset(1), $hv]", "[ctxset(2), $cv]", "hostset($hostvar)",
    "$.dd.get(zz)", "$.dd.get(zz, 1)", "$.dd.get(p)", "$.dd[zz, 5]", "$.dd.zz",
    "$.dd.keys()", "$.dd.containsKey(zz)", "$.dd + {r => 1}", "$.dd.set(zz, 1)",
    "call(len, [$.list], $.kw)", "call('len', [$.list], $.kw)",
    "call(join, [$.strs], $.kw2)", "call(len, [$.list], $hostkw)",
    "call(str, [$.n], $.kw)", "$.kw", "$.kw + {z => 1}", "$.kw.keys()",
    "$.kw.get('-x')", "$hostkw", "$.kw.set('-y', 1)",
    "probe($.n)", "$.list.select(probe($))", "$.nested.select(probe($))",
    "$.list.where(probe($) > 1).select(probe($))",
    "$.recs.select(probe($.name))", "[probe(1), $.list.orderBy(probe($))]",
    # groupBy: both supported aggregator conventions (the current one gets
    # the list of values, the 1.1.1 one gets [key, values]) and no aggregator
    "$.recs.groupBy($.v, $.name)", "$.recs.groupBy($.v, $.name, $.len())",
    "$.recs.groupBy($.v, $.name, [$[0], $[1].len()])",
    "$.recs.groupBy($.v, $.v, $.sum())",
    "$.recs.groupBy($.v, $.v, [$[0], $[1].sum()])",
    "$.recs.groupBy($.name, $.v, $.sum())",
    "$.recs.groupBy($.name, $.v, [$[0], $[1].sum()])",
    "$.list.groupBy($ mod 2, $, $.sum())",
    "$.list.groupBy($ mod 2, $, [$[0], $[1].sum()])",
    "$.list.groupBy($ mod 2, $, $.noSuchMethod())",
    "$.nested.groupBy($.len(), $, $.len())",
    "$.nested.groupBy($.len(), $.len(), [$[0], $[1].len()])",
    # the input document under its other names ($1 and `$` are one variable)
    "$1", "$1.n + 1", "[$1.s, $.s]", "$1.list", "$1 = $", "$1.dict.b + [0]",
    "$1.n + $.n", "[$1.n]", "{a => $1.n}", "$1.list[0]", "-$1.n", "$1.n > 2",
]


# ---------------------------------------------------------------------------
# documents
# ---------------------------------------------------------------------------

def gen_doc(w):
    n = w.choice([0, 1, 3, 3, 4, 6])
    lst = [w.randrange(-3, 9) for _ in range(n)]
    if w.random() < 0.2:
        return {'root': 'list', 'v': lst}
    return {'root': 'dict', 'v': {
        'list': lst,
        'dict': {'a': w.randrange(5), 'b': [1, w.randrange(5)],
                 'c': {'x': 1, 'y': [w.randrange(3)]}},
        'set': sorted(set(w.randrange(6) for _ in range(w.choice([0, 2, 4])))),
        'nested': [[w.randrange(4) for _ in range(w.choice([0, 1, 2, 3]))]
                   for _ in range(w.choice([0, 1, 2, 3]))],
        'strs': [w.choice(['a', 'bb', 'c', 'ab', '']) for _ in range(
            w.choice([0, 1, 2, 3]))],
        'recs': [{'name': w.choice(['n1', 'n2', 'n3']), 'v': w.randrange(4),
                  'tags': [w.randrange(3)]} for _ in range(w.choice([0, 1, 2, 3]))],
        'n': w.randrange(10), 's': w.choice(['hello', 'abc', '', 'a b']),
        'none': None,
        # keys that are not yaql keywords (filtered / special-cased by
        # helpers that treat dicts as keyword arguments)
        'kw': {'-x': 1, '1st': [2], 'a b': {'q': 1}, '$v': 3},
        'kw2': {'sep': ',', '-bad': 1},
        # a mapping with a __missing__ hook (collections.defaultdict)
        'dd': {'p': [1], 'q': [2, 3]}}}


def build_doc(spec):
    """fresh mutable python structure (lists, dicts, sets)"""
    def rec(v, key=None):
        if isinstance(v, dict):
            if key == 'dd':
                import collections
                return collections.defaultdict(
                    list, {k: rec(x, k) for k, x in v.items()})
            return {k: rec(x, k) for k, x in v.items()}
        if isinstance(v, list):
            if key == 'set':
                return set(v)
            return [rec(x) for x in v]
        return v
    return rec(spec['v'])


def container_ids(v, out):
    if isinstance(v, (list, dict, set)):
        out.add(id(v))
        if isinstance(v, dict):
            for x in v.values():
                container_ids(x, out)
        elif isinstance(v, list):
            for x in v:
                container_ids(x, out)
    return out


# ---------------------------------------------------------------------------
# case generation
# ---------------------------------------------------------------------------

SUBS = {'tuple': ['$.list', '$.nested', '$.strs', '$.recs', '$.dict.b'],
        'fdict': ['$.dict', '$.dict.c', '$'],
        'fset': ['$.set'],
        'iter': ['$.list', '$.nested', '$.list.select($)']}


def gen_stmt(w, flavour_bias):
    r = w.random()
    flavour = 'legacy' if w.random() < flavour_bias else 'default'
    if r < 0.45:
        targets = synth.collection_targets(flavour)
        while True:
            ei, slot = w.choice(targets)
            e = synth.inventory(flavour)[ei]
            if e['name'] not in ENDLESS_MAKERS:
                break
        if slot[0] == 'pos':
            p = e['positional'][slot[1]]
        elif slot[0] == 'var':
            p = e['varargs']
        else:
            p = [x for x in e['kwonly'] if x['alias'] == slot[1]][0]
        kinds = [k for k in ('tuple', 'fdict', 'fset', 'iter')
                 if k in p['accepts']] or ['tuple']
        sub = w.choice(SUBS[w.choice(kinds)])
        call = synth.synth_call(w, flavour, (ei, slot), ['lam', sub])
        return {'kind': 'synth', 'flavour': flavour, 'call': call}
    if r < 0.8:
        return {'kind': 'text', 'flavour': 'default', 'expr': w.choice(HAND)}
    c = w.choice(load_corpus())
    return {'kind': 'text', 'flavour': 'legacy' if c['legacy'] else 'default',
            'expr': c['expr'], 'corpus_data': c['data'] if c['has_data'] else None,
            'has_data': c['has_data']}


_themes = []


def themes():
    """HAND statements grouped by the function names they mention: the
    variants of one function (its calling conventions, its overloads) are
    what state kept behind that function's definition would confuse."""
    if not _themes:
        import re
        by = {}
        for h in HAND:
            for name in set(re.findall(r'([A-Za-z_]\w*)\(', h)):
                by.setdefault(name, []).append(h)
        for name in sorted(by):
            if len(by[name]) >= 2:
                _themes.append((name, by[name]))
    return _themes


def gen_case(seeds, params, index):
    w = seeds.stream('workload')
    f = seeds.stream('faults')
    faulty = index % 2 == 1          # separate batches: even = fault free
    nstm = w.choice([2, 3, 4, 6])
    if index % 8 in (4, 5):
        th = themes()
        name, group = th[(index // 8) % len(th)]
        stmts = [{'kind': 'text', 'flavour': 'default',
                  'expr': w.choice(group)} for _ in range(nstm)]
    else:
        stmts = [gen_stmt(w, 0.15) for _ in range(nstm)]
    docs = [gen_doc(w) for _ in range(w.choice([1, 2, 3]))]
    for s in stmts:
        if s.get('has_data'):
            docs.append({'root': 'raw', 'v': s['corpus_data']})
            s['doc'] = len(docs) - 1
    ops = []
    nops = w.randrange(3, params['max_ops'] + 1)
    for _ in range(nops):
        si = w.randrange(len(stmts))
        s = stmts[si]
        if 'doc' in s and w.random() < 0.8:
            di = s['doc']
        elif w.random() < 0.07:
            di = None
        else:
            di = w.randrange(len(docs))
        op = {'op': 'eval', 'stmt': si, 'doc': di,
              'ci': w.random() < 0.5, 'co': w.random() < 0.85,
              'target': w.choice(['child', 'child', 'child', 'P', 'C'])}
        if s['flavour'] == 'default' and w.random() < 0.08:
            op['host'] = 'bare'     # hand-built chain without a finalizer
        if di is None:
            op['target'] = 'none'
        elif w.random() < 0.05:
            op['target'] = 'none'
        elif s['kind'] == 'text' and s['flavour'] == 'default' and \
                w.random() < 0.12:
            # the other host API: a YaqlInterface built over the host's own
            # context, called with extra positional / keyword arguments
            op['via'] = 'yi'
            op['target'] = w.choice(['P', 'C'])
            op['co'] = True
        if faulty and f.random() < 0.45 and op['target'] in ('child', 'C'):
            k = f.choice(['stream', 'stream', 'probe', 'probe', 'limit',
                          'quota', 'abandon'])
            if k == 'stream':
                op['fault'] = ['stream', f.choice([0, 1, 2, 3]),
                               f.choice(['before', 'after'])]
            elif k == 'probe':
                op['fault'] = ['probe', f.choice([1, 1, 2, 3, 5])]
            elif k == 'limit':
                op['fault'] = ['limit', f.choice([0, 1, 2])]
            elif k == 'quota':
                op['fault'] = ['quota', f.choice([60, 100, 300])]
            else:
                op['fault'] = ['abandon', f.choice([0, 1, 2])]
                op['co'] = False
        if s['kind'] == 'text' and s['flavour'] == 'default' and \
                'fault' not in op and op.get('via') is None and \
                w.random() < 0.07:
            op['via'] = 'eval'      # yaql.eval(text, data): module caches
            op['target'] = 'none'
        if w.random() < 0.25 and 'fault' not in op:
            op['twin'] = True       # then once more with an equal deep copy
        ops.append(op)
        if op.get('via') in ('eval', 'yi') and di is not None and \
                w.random() < 0.6:
            # evaluate, let the host change the document in place, evaluate
            # the same thing again on the same object (and on an equal copy)
            ops.append({'op': 'mutate', 'doc': di, 'n': w.randrange(100, 200)})
            ops.append(dict(op, twin=True))
        if w.random() < 0.12 and di is not None:
            # the host changes its own document in place between evaluations
            ops.append({'op': 'mutate', 'doc': di, 'n': w.randrange(100, 200)})
        if w.random() < 0.35:
            # REUSE: an earlier (statement, document, mode), fault free
            prev = w.choice([o for o in ops if o['op'] == 'eval'])
            ops.append({k: v for k, v in prev.items() if k != 'fault'})
    return {'stmts': stmts, 'docs': docs, 'ops': ops, 'faulty': faulty}


# ---------------------------------------------------------------------------
# host
# ---------------------------------------------------------------------------

def prepare(params, replay=False):
    core.import_yaql()
    for fl in ('default', 'legacy'):
        synth.inventory(fl)
        synth.collection_targets(fl)
        synth.chain_engine(fl)
    load_corpus()
    for fl in ('default', 'legacy'):
        synth.chain_engine(fl, {'yaql.x-wrap': 1})
    return {'corpus_expressions': len(load_corpus()),
            'hand_written_statements': len(HAND)}


def bare_root():
    """A context chain the host populated by hand with the library modules'
    register() functions - no '#finalize' / '#iter' anywhere (yaql then
    installs an identity finalizer in a throw-away child per evaluation)."""
    r = _state.get('bare_root')
    if r is None:
        from yaql.language import contexts, conventions
        from yaql.standard_library import (
            boolean, branching, collections, common, math, queries, regex,
            strings, system)
        root = contexts.Context(convention=conventions.CamelCaseConvention())
        system.register_fallbacks(root)
        ctx = root.create_child_context()
        system.register(ctx, False)
        common.register(ctx)
        boolean.register(ctx)
        strings.register(ctx)
        math.register(ctx)
        collections.register(ctx, False)
        queries.register(ctx, True)
        regex.register(ctx)
        branching.register(ctx)
        r = _state['bare_root'] = ctx
    return r


class LazySnap(dict):
    """pristine snapshot per host chain, taken when the chain is first
    needed (always before the first evaluation that uses it)"""

    def __init__(self, host):
        super().__init__()
        self.host = host

    def __missing__(self, fl):
        self[fl] = self.host.snapshot(fl)
        return self[fl]


class Host:
    """The simulated host: contexts, functions, documents, statements."""

    def __init__(self, case):
        self.case = case
        self.probe_calls = 0
        self.probe_fail_at = None
        self.layers = {}
        self.hostlist = [1, 2, [3, 4]]
        for fl in ('default', 'legacy', 'bare'):
            root = bare_root() if fl == 'bare' else synth.chain_contexts(fl)
            P = root.create_child_context()
            host = self

            def probe(x):
                host.probe_calls += 1
                if host.probe_fail_at is not None and \
                        host.probe_calls == host.probe_fail_at:
                    raise HostProbeError('probe call %d' % host.probe_calls)
                return x

            def hostset(yaql_interface, value):
                yaql_interface['hv'] = value
                return value

            def ctxset(context, value):
                context['cv'] = value
                return value

            def hostlist_():
                return host.hostlist
            P.register_function(probe, name='probe')
            P.register_function(hostset, name='hostset')
            P.register_function(ctxset, name='ctxset')
            P.register_function(hostlist_, name='hostlist')
            P['hostvar'] = [1, 2, [3]]
            P['hostdict'] = {'k': [1], 'm': {'z': 1}}
            P['hostkw'] = {'-x': 1, '1st': 2, 'a b': [3]}
            for k, v in synth.std_vars().items():
                P[k] = v
            C = P.create_child_context()
            C['cvar'] = 5
            self.layers[fl] = {'P': P, 'C': C}
        self.docs = [build_doc(d) if d['root'] != 'raw' else
                     self._raw(d['v']) for d in case['docs']]
        self.pristine = [ser.ser_value(d) for d in self.docs]
        self.host_ids = set()
        for d in self.docs:
            container_ids(d, self.host_ids)
        for fl in self.layers:
            container_ids(self.layers[fl]['P']['hostvar'], self.host_ids)
            container_ids(self.layers[fl]['P']['hostdict'], self.host_ids)
            container_ids(self.layers[fl]['P']['hostkw'], self.host_ids)
        container_ids(self.hostlist, self.host_ids)
        self.hostlist_pristine = ser.ser_value(self.hostlist)
        self.stmt_cache = {}
        self._names = {}
        self.snap = LazySnap(self)
        self.dollar_ok = {fl: set() for fl in self.layers}

    @staticmethod
    def _raw(v):
        return json.loads(json.dumps(v))

    # -- context snapshots ------------------------------------------------
    def chain(self, fl):
        out = []
        c = self.layers[fl]['C']
        while c is not None:
            out.append(c)
            c = c.parent
        return out

    def snapshot(self, fl):
        """Public-interface snapshot of every context of the host chain."""
        names = self._names.get(fl)
        if names is None:
            names = self._names[fl] = synth.known_function_names(
                self.layers[fl]['C']) + ['#finalize_fallback', 'hv', 'cv']
        snap = []
        for c in self.chain(fl):
            data, funcs = synth.public_snapshot(
                c, names, lambda v: core.jdump(ser.ser_value(v)))
            snap.append({'data': data, 'funcs': funcs,
                         'excl': frozenset(n for n, f in funcs.items() if f[1])})
        return snap

    def compare_contexts(self, fl):
        now = self.snapshot(fl)
        names = ['C', 'P'] + ['ancestor%d' % i for i in range(len(now))]
        for i, (a, b) in enumerate(zip(self.snap[fl], now)):
            lname = names[i]
            da, db = dict(a['data']), dict(b['data'])
            if lname in self.dollar_ok[fl]:
                da.pop('$1', None)
                db.pop('$1', None)
            if da != db:
                added = sorted(set(db) - set(da))
                removed = sorted(set(da) - set(db))
                changed = sorted(k for k in da if k in db and da[k] != db[k])
                return {'layer': lname, 'added': added, 'removed': removed,
                        'changed': changed}
            if a['funcs'] != b['funcs']:
                diff = sorted(k for k in set(a['funcs']) | set(b['funcs'])
                              if a['funcs'].get(k) != b['funcs'].get(k))
                return {'layer': lname, 'functions_changed': diff[:5]}
            if a['excl'] != b['excl']:
                return {'layer': lname, 'exclusive_changed': True}
        return None

    def mutate_doc(self, di, n):
        """The host changes its own document in place (its right), and the
        pristine snapshot moves with it."""
        d = self.docs[di]
        if isinstance(d, dict):
            if isinstance(d.get('list'), list):
                d['list'].append(n)
            d['n'] = n % 10
            if isinstance(d.get('dict'), dict):
                d['dict']['a'] = n
            if isinstance(d.get('recs'), list) and d['recs']:
                d['recs'][0]['v'] = n % 5
        elif isinstance(d, list):
            d.append(n)
        self.pristine[di] = ser.ser_value(d)
        container_ids(d, self.host_ids)

    # -- statements ---------------------------------------------------------
    def statement(self, si, ci, co, fault):
        from yaql.language import expressions as X
        s = self.case['stmts'][si]
        fl = s['flavour']
        opts = {'yaql.convertInputData': bool(ci),
                'yaql.convertOutputData': bool(co)}
        fkey = None
        if fault and fault[0] == 'limit':
            opts['yaql.limitIterators'] = fault[1]
            fkey = ('limit', fault[1])
        if fault and fault[0] == 'quota':
            opts['yaql.memoryQuota'] = fault[1]
            fkey = ('quota', fault[1])
        wrap = None
        if fault and fault[0] == 'stream':
            wrap = ('stream', fault[2])
        if fault and fault[0] == 'probe':
            wrap = ('probe',)
        key = (si, bool(ci), bool(co), fkey, wrap)
        st = self.stmt_cache.get(key)
        if st is not None:
            return st, fl
        if s['kind'] == 'text' and not wrap:
            # the public route: one long-lived engine, per-call options
            # (engine(expression, options) derives a copy and parses there);
            # nothing else parses this text first
            st = synth.chain_engine(fl)(s['expr'], opts)
            self.stmt_cache[key] = st
            return st, fl
        base = self.stmt_cache.get(('expr', si))
        if base is None:
            if s['kind'] == 'synth':
                base = synth.build_call(fl, s['call'])
            else:
                # a separate engine for the wrapped (fault-carrying) variants
                base = synth.chain_engine(fl, {'yaql.x-wrap': 1})(
                    s['expr']).expression
            self.stmt_cache[('expr', si)] = base
        expr = base
        if wrap and wrap[0] == 'stream':
            side = synth.parse_lambda(fl, '$side.select($).toList()')
            expr = X.ListExpression(*((side, base) if wrap[1] == 'before'
                                      else (base, side)))
        elif wrap and wrap[0] == 'probe':
            expr = X.ListExpression(synth.parse_lambda(fl, 'probe(0)'), base,
                                    synth.parse_lambda(fl, 'probe(1)'))
        engine = synth.chain_engine(fl, {'yaql.x-wrap': 1}).copy(opts)
        st = X.Statement(expr, engine)
        self.stmt_cache[key] = st
        return st, fl


_ADDR = None


def scrub(v):
    """object addresses inside strings (repr of iterators etc.) are not
    part of a result"""
    global _ADDR
    if _ADDR is None:
        import re
        _ADDR = re.compile(r' at 0x[0-9a-fA-F]+')
    if isinstance(v, str):
        return _ADDR.sub(' at 0x?', v) if ' at 0x' in v else v
    if isinstance(v, list):
        return [scrub(x) for x in v]
    return v


def materialise(r, limit=200):
    from yaql.language import utils
    if utils.is_iterator(r):
        return list(itertools.islice(r, limit))
    return r


def find_alias(v, host_ids, path='result', depth=0):
    if depth > 20:
        return None
    if isinstance(v, (list, dict, set)):
        if id(v) in host_ids:
            return path
        if isinstance(v, dict):
            for k, x in v.items():
                p = find_alias(x, host_ids, '%s[%r]' % (path, k), depth + 1)
                if p:
                    return p
        elif isinstance(v, list):
            for i, x in enumerate(v):
                p = find_alias(x, host_ids, '%s[%d]' % (path, i), depth + 1)
                if p:
                    return p
    elif isinstance(v, tuple):
        for i, x in enumerate(v):
            p = find_alias(x, host_ids, '%s[%d]' % (path, i), depth + 1)
            if p:
                return p
    return None


def mutate_deep(v, depth=0):
    if depth > 20:
        return
    if isinstance(v, list):
        for x in list(v):
            mutate_deep(x, depth + 1)
        v.append('MUTATED')
        if len(v) > 1:
            v[0] = 'MUTATED0'
    elif isinstance(v, dict):
        for x in list(v.values()):
            mutate_deep(x, depth + 1)
        v['MUTATED'] = 1
    elif isinstance(v, set):
        v.add('MUTATED')
    elif isinstance(v, tuple):
        for x in v:
            mutate_deep(x, depth + 1)


def execute(case, stats):
    from yaql.language import utils
    host = Host(case)
    viols = []
    first = {}
    docver = {}
    nabort = 0
    nops = 0
    undo_rand = seams.patch_random(12345)
    undo_it = seams.patch_itertools(3000)
    import sys
    old_trace = sys.gettrace()
    sys.settrace(call_tracer(os.path.join(core.repo_root(), 'yaql') + os.sep))
    try:
        for step, op in enumerate(case['ops']):
            if op['op'] == 'mutate':
                if op['doc'] < len(host.docs):
                    host.mutate_doc(op['doc'], op['n'])
                    docver[op['doc']] = docver.get(op['doc'], 0) + 1
                    stats.inc('fault.host_mutated_its_document')
                continue
            if op['stmt'] >= len(case['stmts']) or \
                    (op['doc'] is not None and op['doc'] >= len(case['docs'])):
                continue
            nops += 1
            fault = op.get('fault')
            try:
                st, fl = host.statement(op['stmt'], op['ci'], op['co'], fault)
            except Exception as e:
                stats.inc('status.unbuildable_statement')
                first.setdefault(('unbuildable', op['stmt']), type(e).__name__)
                continue
            hfl = op.get('host') or fl
            L = host.layers[hfl]
            host.snap[hfl]          # pristine snapshot of this chain
            tgt = op['target']
            if tgt == 'child':
                ctx = L['P'].create_child_context()
            elif tgt == 'P':
                ctx = L['P']
                if op.get('via') != 'yi':
                    host.dollar_ok[hfl].add('P')
            elif tgt == 'C':
                ctx = L['C']
                if op.get('via') != 'yi':
                    host.dollar_ok[hfl].add('C')
            else:
                ctx = None
            via_yi = op.get('via') == 'yi' and not fault and \
                case['stmts'][op['stmt']]['kind'] == 'text'
            if via_yi:
                # YaqlInterface derives its own child: the host context must
                # stay untouched, including `$`
                ctx = L['P'] if tgt == 'P' else L['C']
            if fault and tgt == 'C':
                ctx = L['C'].create_child_context()
            data = utils.NO_VALUE if op['doc'] is None else host.docs[op['doc']]
            host.probe_calls = 0
            host.probe_fail_at = None
            side = None
            if fault and fault[0] == 'stream':
                side = seams.SimSource('side', lambda i: i, length=fault[1] + 4,
                                       fail_at=fault[1])
                ctx['side'] = side
            if fault and fault[0] == 'probe':
                host.probe_fail_at = fault[1]
            outcome = None
            aborted = False
            _calls[0] = 0
            def route(data_, ctx_):
                if via_yi:
                    from yaql import yaql_interface
                    yi = yaql_interface.YaqlInterface(ctx_, st.engine)
                    if data_ is utils.NO_VALUE:
                        return yi(case['stmts'][op['stmt']]['expr'],
                                  who='x', items=[1, 2])
                    return yi(case['stmts'][op['stmt']]['expr'], data_, 7,
                              who='x', items=[1, 2])
                if op.get('via') == 'eval' and \
                        case['stmts'][op['stmt']]['kind'] == 'text':
                    import yaql as _y
                    return _y.eval(case['stmts'][op['stmt']]['expr'],
                                   None if data_ is utils.NO_VALUE else data_)
                return st.evaluate(data=data_, context=ctx_)
            try:
                r = route(data, ctx)
                if via_yi:
                    stats.inc('probe.evaluations_via_yaql_interface')
                elif op.get('via') == 'eval':
                    stats.inc('probe.evaluations_via_yaql_eval')
                if fault and fault[0] == 'abandon':
                    it = iter(r) if utils.is_iterator(r) else None
                    if it is not None:
                        for _ in range(fault[1]):
                            try:
                                next(it)
                            except StopIteration:
                                break
                        if hasattr(it, 'close'):
                            it.close()
                        del it
                        aborted = True
                        stats.inc('fault.lazy_result_abandoned')
                    outcome = ['ok-abandoned']
                else:
                    r = materialise(r)
                    outcome = ['ok', scrub(ser.ser_value(r))]
            except seams.SimIOError:
                aborted = True
                stats.inc('fault.stream_error_fired')
                outcome = ['aborted', 'SimIOError']
            except HostProbeError:
                aborted = True
                stats.inc('fault.probe_raised')
                outcome = ['aborted', 'HostProbeError']
            except core.SimBudgetExceeded:
                outcome = ['raised', 'step-budget']
                stats.inc('status.step_budget_exhausted')
            except Exception as e:
                outcome = ['raised', type(e).__name__]
                if fault and fault[0] in ('limit', 'quota') and \
                        type(e).__name__ in ('CollectionTooLargeException',
                                             'MemoryQuotaExceededException'):
                    aborted = True
                    stats.inc('fault.limit_or_quota_tripped')
            if aborted:
                nabort += 1
            descr = describe_op(case, op)
            # I1: documents unchanged
            for di, d in enumerate(host.docs):
                if ser.ser_value(d) != host.pristine[di]:
                    viols.append(v_('host-data-changed', step, descr,
                                    {'doc': di, 'before': host.pristine[di],
                                     'after': ser.ser_value(d),
                                     'outcome': outcome[:2]}))
                    break
            if not viols and ser.ser_value(host.hostlist) != host.hostlist_pristine:
                viols.append(v_('host-data-changed', step, descr,
                                {'doc': 'hostlist()', 'after':
                                 ser.ser_value(host.hostlist)}))
            # I2: context chain unchanged
            if not viols:
                for f2 in (hfl,):       # the chain this evaluation ran in
                    diff = host.compare_contexts(f2)
                    if diff:
                        viols.append(v_('host-context-changed', step, descr,
                                        dict(diff, flavour=f2,
                                             outcome=outcome[:2])))
                        break
            # I3: converted results alias no host container
            if not viols and outcome[0] == 'ok' and op['co'] and not fault \
                    and hfl != 'bare':     # no finalizer = no conversion
                p = find_alias(r, host.host_ids)
                if p:
                    viols.append(v_('result-aliases-host-data', step, descr,
                                    {'where': p, 'convert_input': op['ci']}))
                else:
                    mutate_deep(r)
                    for di, d in enumerate(host.docs):
                        if ser.ser_value(d) != host.pristine[di]:
                            viols.append(v_('mutating-result-changed-host-data',
                                            step, descr, {'doc': di}))
                            break
                    if not viols and (
                            ser.ser_value(host.hostlist) != host.hostlist_pristine
                            or host.compare_contexts(hfl)):
                        viols.append(v_('mutating-result-changed-host-data',
                                        step, descr, {'doc': 'host context'}))
                stats.inc('probe.alias_checked_results')
            # I4: history independence
            if not viols and not fault:
                key = (op['stmt'], op['doc'], docver.get(op['doc'], 0),
                       op['ci'], op['co'],
                       'none' if tgt == 'none' else 'host', bool(via_yi), hfl,
                       op.get('via') == 'eval')
                prev = first.get(key)
                if prev is None:
                    first[key] = (outcome, step, nabort)
                else:
                    if prev[0] != outcome:
                        # Results that depend on the iteration order of a set
                        # holding identity-hashed objects (a lazy iterator put
                        # into a set by a synthesised call) vary with object
                        # addresses even on a correct tree.  Confirm history
                        # dependence: the same evaluation repeated right now
                        # must be stable, and two *different exception
                        # classes* are never taken as a verdict.
                        stable = True
                        for _ in range(0 if via_yi else 6):
                            try:
                                c2 = ctx if tgt in ('P', 'C', 'none') else \
                                    L['P'].create_child_context()
                                r2 = materialise(st.evaluate(data=data,
                                                             context=c2))
                                o2 = ['ok', scrub(ser.ser_value(r2))]
                            except core.SimBudgetExceeded:
                                o2 = ['raised', 'step-budget']
                            except Exception as e2:
                                o2 = ['raised', type(e2).__name__]
                            if o2 != outcome:
                                stable = False
                                break
                        if not stable or (prev[0][0] == 'raised' and
                                          outcome[0] == 'raised'):
                            stats.inc('nd.address_dependent_outcome_skipped')
                        else:
                            viols.append(v_(
                                'same-statement-same-data-different-result',
                                step, descr,
                                {'first_at': prev[1], 'first': prev[0],
                                 'now': outcome,
                                 'aborts_in_between': nabort - prev[2]}))
                    stats.inc('probe.reuse_compared')
                    if nabort - prev[2] > 0:
                        stats.inc('probe.reuse_after_aborted_evaluation')
            # I5: equal data (a deep copy, i.e. another object) => equal result
            if not viols and op.get('twin') and not fault and \
                    data is not utils.NO_VALUE and outcome[0] in ('ok', 'raised'):
                import copy
                try:
                    c2 = ctx if tgt in ('P', 'C', 'none') else \
                        L['P'].create_child_context()
                    r2 = materialise(route(copy.deepcopy(data), c2))
                    o2 = ['ok', scrub(ser.ser_value(r2))]
                except core.SimBudgetExceeded:
                    o2 = ['raised', 'step-budget']
                except Exception as e2:
                    o2 = ['raised', type(e2).__name__]
                stats.inc('probe.twin_evaluations')
                if o2 != outcome and not (o2[0] == 'raised' and
                                          outcome[0] == 'raised'):
                    # confirm against address-dependent outcomes
                    try:
                        r3 = materialise(route(data, ctx if tgt in (
                            'P', 'C', 'none') else L['P'].create_child_context()))
                        o3 = ['ok', scrub(ser.ser_value(r3))]
                    except Exception as e3:
                        o3 = ['raised', type(e3).__name__]
                    if o3 == outcome:
                        viols.append(v_('equal-data-different-result', step,
                                        descr, {'with_host_object': outcome,
                                                'with_equal_copy': o2}))
                    else:
                        stats.inc('nd.address_dependent_outcome_skipped')
            if outcome[0] == 'ok':
                stats.inc('outcome.ok')
            else:
                stats.inc('outcome.' + outcome[0])
            if viols:
                break
    finally:
        sys.settrace(old_trace)
        undo_rand()
        undo_it()
    stats.inc('operations', nops)
    stats.inc('steps.operations', nops)
    stats.inc('histories_faulty' if case.get('faulty') else
              'histories_fault_free')
    stats.inc('aborted_evaluations', nabort)
    for s in case['stmts']:
        stats.inc('stmt_kind.' + s['kind'])
    stats.add('nontrivial', core.h64(core.jdump(case['stmts']),
                                     core.jdump(case['ops'])))
    if nabort:
        stats.sample('sample_faulty', {
            'stmts': [stmt_text(s) for s in case['stmts']],
            'ops': case['ops'][:8]}, 1)
    else:
        stats.sample('sample', {'stmts': [stmt_text(s) for s in case['stmts']],
                                'ops': case['ops'][:6]}, 1)
    return viols


def stmt_text(s):
    return synth.describe(s['call']) if s['kind'] == 'synth' else s['expr']


def describe_op(case, op):
    return {'statement': stmt_text(case['stmts'][op['stmt']]),
            'flavour': case['stmts'][op['stmt']]['flavour'],
            'doc': op['doc'], 'convert_input': op['ci'],
            'convert_output': op['co'], 'target': op['target'],
            'host_chain': op.get('host', 'create_context'),
            'fault': op.get('fault')}


def v_(what, step, descr, detail):
    key = 'C09:%s:%s' % (what, descr['statement'][:60])
    return {'key': key, 'clause': what,
            'detail': dict(detail, step=step, op=descr)}


# ---------------------------------------------------------------------------

def shrink_candidates(case):
    def mk(**kw):
        c = {k: v for k, v in case.items() if k != 'shrink'}
        c.update(kw)
        return c
    ops = case['ops']
    n = len(ops)
    step = max(1, n // 2)
    while step >= 1:
        i = 0
        while i < len(ops):
            if len(ops) - step >= 1:
                yield mk(ops=ops[:i] + ops[i + step:])
            i += step
        step //= 2
    for i, op in enumerate(ops):
        if op['op'] != 'eval':
            continue
        if op.get('twin'):
            no = {k: v for k, v in op.items() if k != 'twin'}
            yield mk(ops=ops[:i] + [no] + ops[i + 1:])
        if op.get('fault'):
            no = {k: v for k, v in op.items() if k != 'fault'}
            yield mk(ops=ops[:i] + [no] + ops[i + 1:])
        for fld, val in (('target', 'child'), ('ci', True), ('co', True)):
            if op.get(fld) != val and not (fld == 'target' and op['doc'] is None):
                no = dict(op)
                no[fld] = val
                yield mk(ops=ops[:i] + [no] + ops[i + 1:])
    # shrink documents
    for di, d in enumerate(case['docs']):
        if d['root'] == 'dict':
            v = d['v']
            for k in ('list', 'nested', 'recs', 'strs', 'set'):
                if len(v.get(k, [])) > 1:
                    nv = dict(v)
                    nv[k] = v[k][:len(v[k]) // 2]
                    nd = case['docs'][:di] + [dict(d, v=nv)] + case['docs'][di + 1:]
                    yield mk(docs=nd)


def match_known(case, viol, entry):
    m = entry.get('match', {})
    return bool(m) and viol['key'].startswith(m.get('key_prefix', '\0'))


def coverage(stats, params):
    return {
        'evaluations': stats.n('operations'),
        'distinct_nontrivial': stats.distinct('nontrivial'),
        'rule': 'a case = one host history: 2-6 statements (introspective '
                'calls of library functions on mutable sub-collections of the '
                'document, context-writing constructs and host-function '
                'statements, expressions harvested from the test suite), 1-3 '
                'generated documents, <= max_ops evaluations with input '
                'conversion on/off, output conversion on/off, target context '
                'fresh child / host layer itself / persistent child / none; '
                'odd run indices inject aborts; all invariants are checked '
                'after every operation; distinct = distinct (statements, '
                'operations) hash, every history is non-trivial (>= 3 '
                'evaluations, snapshots compared after each)',
        'samples': (stats.samples.get('sample', []) +
                    stats.samples.get('sample_faulty', [])) or [{'note': 'none'}],
        'histories_fault_free': stats.n('histories_fault_free'),
        'histories_faulty': stats.n('histories_faulty'),
        'aborted_evaluations': stats.n('aborted_evaluations'),
        'outcomes': stats.counters('outcome.'),
        'statement_kinds': stats.counters('stmt_kind.'),
        'simulated_time_steps': stats.counters('steps.'),
        'faults_fired': stats.counters('fault.'),
        'probes': stats.counters('probe.'),
        'status': stats.counters('status.'),
        'real_components': ['all of yaql (engine, contexts, runner, standard '
                            'library, legacy library), unmodified'],
        'stubbed_components': ['the host: documents, prepared context chain, '
                               'host functions probe/hostset/ctxset/hostlist',
                               'failing host stream (SimSource)',
                               'random (seeded)'],
        'exhaustive': False,
    }


def probe_warnings(stats):
    out = []
    for p in ('probe.reuse_after_aborted_evaluation',
              'probe.alias_checked_results', 'fault.stream_error_fired',
              'fault.probe_raised', 'fault.limit_or_quota_tripped',
              'fault.lazy_result_abandoned'):
        if stats.n(p) == 0:
            out.append(p)
    return out
