"""C18 - concurrent evaluations do not interfere.

Simulated: 2-4 host threads evaluating statements of ONE engine, each in its
own child of ONE shared prepared context, under the baton scheduler with
pre-emption at every Python line of yaql code (sys.settrace) and at every
pull of an instrumented stream - strictly finer than the function-dispatch /
iterator-step granularity the property names.  The thread scheduler is the
stub; everything else is real.  Oracle: every evaluation returns exactly what
it returned when it ran alone before the concurrent phase, and the shared
context chain is unchanged afterwards.
"""
import gc
import json
import os

from sim import core, sched, seams, ser, synth
from checks import c09

ID = 'C18'
LEVEL = 'exploration'
ASSUMPTIONS = [
    'pre-emption between any two Python lines of yaql frames and at stream '
    'pulls; a race that needs a switch inside one bytecode line or inside C '
    'code of a dependency is out of reach (the GIL makes those atomic)',
    'overload sets enumerate in a canonical order (simulator-assigned '
    'FunctionDefinition hashes) and PYTHONHASHSEED is pinned, so a schedule '
    'is exactly repeatable; the cyclic GC is disabled inside a run',
    'baseline = the same (statement, document) evaluated alone in a fresh '
    'child of the same shared context before the threads start; results '
    'that are unstable when evaluated alone (set order of identity-hashed '
    'objects) give no verdict',
    'free-running threads are not part of the deciding step',
]

TIERS = {
    'quick': {'runs': 3000, 'chunk': 40, 'timeout_s': 900},
    'thorough': {'runs': 120000, 'chunk': 400, 'timeout_s': 6 * 3600,
                 'chunk_timeout_s': 3000},
}

STEP_CAP = 1500000
SWEEP = 6           # extra single-switch concurrent phases per write-policy run
_state = {}
_site_picks = {}    # per worker process: how often a site was targeted

STATEFUL = [
    "$.recs.orderBy($.v).thenBy($.name).select([$.v, $.name])",
    "$.recs.orderByDescending($.v).thenByDescending($.name).select($.name)",
    "$.list.orderBy($)", "$.list.orderByDescending($).select($ * 2)",
    "$.strs.orderBy($)", "$.nested.orderBy($.len()).select($.len())",
    "$.recs.groupBy($.v, $.name)",
    "$.recs.groupBy($.v, $.name, [$[0], $[1].len()])",
    "$.list.groupBy($ mod 2)",
    "$.list.memorize().select($ + 1).toList()",
    "let(m => $.list.memorize()) -> [$m.len(), $m.sum(), $m.toList()]",
    "$.list.join($.list, $1 = $2, [$1, $2])",
    "$.list.join($.strs, true, [$1, $2])",
    "$.list.select($ * $.n)".replace('$.n', '2'),
    "let(a => $.n) -> $.list.select($ + $a)",
    "let(a => $.n, b => $.s) -> [$a, $b, $.list.len()]",
    "def(f, $ + 1) -> $.list.select(f($))",
    "def(g, $.len()) -> [g($.list), g($.strs), g($.nested)]",
    "def(h, $ * $) -> def(k, h($) + 1) -> $.list.select(k($))",
    "$.list.aggregate($1 + $2, 0)", "$.list.accumulate($1 + $2, 0)",
    "$.list.sum() + $.n", "$.list.select($ > 1).toList()",
    "$.list.where($ > $.n)".replace('$.n', '1'),
    "$.strs.select($.toUpper() + '!')", "$.strs.join('-')",
    "$.s.replace('a', 'b').toUpper()", "$.s =~ 'a'", "$.s.matches('.*b.*')",
    "regex('(a)(b)?').searchAll($.s + 'ab')",
    "regex('[a-z]').replace($.s, 'x')",
    "$.strs.select(regex('a+').search($))",
    "$.dict.set(q, $.n)", "$.dict + {w => $.list}", "$.dict.c.y + $.list",
    "$.dict.mergeWith({c => {y => $.list}})",
    "$.set.union($.list)", "$.list.toSet().orderBy($)",
    "$.list.distinct().orderBy($)", "$.nested.selectMany($).distinct()",
    "$.list.zip($.strs).select([$[0], $[1]])",
    "$.list.enumerate(1).select($[0] * $[1])",
    "$.list.slice(2).select($.sum())", "$.list.reverse()",
    "switch($.n > 3 => 'big', $.n > 1 => 'mid', true => 'small')",
    "coalesce($.none, $.n, 5)", "$.list.len() > 2 and $.n > 1 or $.s = ''",
    "datetime(2015, 6, 1, 12, 0, 0, 0, timespan(hours => $.n)).offset.hours",
    "datetime(1000 + $.n, timespan(hours => $.n mod 12)).timestamp",
    "(datetime(2015, 1, 1, 0, 0, 0, 0, timespan(minutes => $.n * 15)) + "
    "timespan(hours => 1)).utc.hour",
    "datetime(2015, 6, 1, 12, 0, 0, 0, timespan(hours => $.n)).utc.hour",
    "[datetime($.n * 1000, timespan(hours => $.n mod 10)).offset.hours, $.n]",
    "format('{0}-{1}', $.n, $.s)", "'{a}'.format(a => $.list)",
    "$.list.select(str($)).join(',')", "$.list.toList() * 2",
    # a frozen dictionary of the host in the shared context: hashed by some
    # evaluations, compared with equal dictionaries by others
    "[$frozen = {a => 1, b => 2}, $frozen != {a => 1, b => 2}, $.n]",
    "[set($frozen, $.n).len(), $frozen = {a => 1, b => 2}]",
    "[{$frozen => $.n}.len(), $frozen in [{a => 1, b => 2}]]",
    "[$frozen].distinct().len() + $.n",
    "[$frozen, {a => 1, b => 2}].distinct().len()",
    "[$frozen = $frozen2, [$frozen, $frozen2].toSet().len(), $.n]",
    # deep nesting: every thread well below any depth limit on its own
    "(" + " + ".join(["$.n"] * 80) + ") mod 7",
    "%s$.n%s.len()" % ("[" * 60, "]" * 60),
    # integers beyond the interpreter's int->str digit limit (a process-wide
    # setting): conversions of such values next to ordinary ones
    "str(pow(10, 4400) + $.n).len()", "[pow(7, 6000), $.n].select(str($).len())",
    "str([$.n, pow(10, 4400)]).len()", "'{0}'.format(pow(10, 4400) * $.n).len()",
    "str($.n) + str(pow(10, 4400)).substring(0, 3)",
    "int(str(pow(10, 4400) + $.n)) - pow(10, 4400)",
    "$hostvar + $.list", "$hostdict.set(z, $.n)", "$hostvar.len() + $.n",
    "hostlist() + $.list", "$.list.select(probe($))",
    "$.recs.select($.name + str($.v))", "$.recs.toDict($.name, $.v)",
    "$.recs.where($.v > 1).select($.set(seen, true))",
    "$.list.first($.n)", "$.list.last($.n)", "$.list.indexOf($.n)",
    "$.list.splitAt(1)", "$.list.splitWhere($ = $.n)".replace('$.n', '2'),
    "$.list.sliceWhere($ > 1)", "$.list.takeWhile($ < 5).toList()",
    "$.list.skipWhile($ < 2).toList()", "$.list.defaultIfEmpty([9])",
    "range(0, $.n).select($ * 2)", "sequence().take($.n).toList()",
    "[1, 2].cycle().take($.n)", "generate(0, $ < 5, $ + 1)",
    "generateMany($.n, range($), $ * 10).take(8)",
    "$.src.select($ * 2).take(3)", "$.src.where($ mod 2 = 0).take(2)",
    "$.src.memorize().take(4).toList()", "$.src.take(3).orderBy(-$)",
    "sq($.n)", "$.list.select(sq($))", "pairUp($.n)", "$.list.select(pairUp($))",
    "addN($.n, 2)", "[sq($.n), addN($.n, $.n)]", "$.list.select(addN($, 1)).sum()",
    "$hostdict.delete(k)", "$hostdict.deleteAll([k, m])", "$hostvar.delete(0)",
    "$hostdict.remove(k)", "$hostvar.insert(0, $.n)", "$hostvar.replace(0, $.n)",
    "$hostdict.m.set(w, $.n)", "$hostvar[2] + [$.n]", "$hostdict.k.append($.n)",
    "kindOf($.n)", "kindOf($.s)", "[kindOf($.n), kindOf($.s), kindOf($.list)]",
    "$.list.select(kindOf($))", "$.strs.select(kindOf($))", "kindOf($.none)",
    "chained($.s)", "notStr($.n)", "[notStr($.list), chained($.s)]",
    "subLen($.list)", "subLen($.strs)", "subSum($.list)",
    "[subLen($.list), subSum($.list)]", "$.nested.select(subLen($))",
    "$yobj.foo", "$yobj.bar", "[$yobj.foo, $yobj.name]", "$yobj.upper($.s)",
    "$yobj.items[0]", "$yobj.add($.n, 1)", "[$yobj.bar, $yobj.add(1, $.n)]",
    "$yobj2.foo", "[$yobj2.name, $yobj.name]", "$yobj.child.foo",
    "$.list.select($yobj.add($, 1))", "$.strs.select($yobj.upper($))",
]


BROKEN = ["$.list.select(", "1 +", "$.n + * 2", "[1, 2", "$.s =~", "foo(,)",
          "$.list.where($ >", "'abc", "$.n $.n", "{a => }"]


def family_of(text):
    if '4400' in text or '6000' in text:
        return 'interpreter_settings'
    if '$frozen' in text:
        return 'frozen_host_dicts'
    if text.count('$.n + $.n') > 20 or '[[[[[[' in text:
        return 'deep_nesting'
    if '$yobj' in text:
        return 'host_objects'
    if any(k in text for k in ('kindOf', 'chained', 'notStr', 'subLen',
                               'subSum', 'probe(', 'hostlist')):
        return 'host_functions'
    if any(k in text for k in ('sq(', 'pairUp', 'addN', 'def(', 'let(',
                               'with(', 'unpack')):
        return 'scopes'
    if 'datetime' in text or 'timespan' in text:
        return 'datetime'
    if any(k in text for k in ('regex', '=~', 'matches', 'format', 'replace(',
                               'toUpper', 'join(')):
        return 'strings'
    if '$host' in text:
        return 'host_vars'
    if any(k in text for k in ('orderBy', 'groupBy', 'memorize', 'distinct',
                               'toSet', 'union', 'toDict')):
        return 'stateful_lazies'
    if any(k in text for k in ('.src', 'sequence', 'cycle', 'generate',
                               'range(')):
        return 'streams'
    return 'queries'


def families():
    f = _state.get('families')
    if f is None:
        f = {}
        for t in STATEFUL:
            f.setdefault(family_of(t), []).append(t)
        f = _state['families'] = [f[k] for k in sorted(f)]
    return f


def pick_stateful(w):
    """family first, then a statement of it: the few statements that touch
    host objects, typed host functions, date/time zones ... are drawn as
    often as the many plain queries"""
    return w.choice(w.choice(families()))


def pool():
    p = _state.get('pool')
    if p is None:
        p = []
        for t in STATEFUL:
            p.append({'kind': 'text', 'flavour': 'default', 'expr': t})
        for t in c09.HAND:
            p.append({'kind': 'text', 'flavour': 'default', 'expr': t})
        for e in c09.load_corpus():
            if e['legacy'] or any(b in e['expr'] for b in (
                    'sequence()', 'cycle', 'repeat', 'generate', 'range(')):
                continue
            p.append({'kind': 'text', 'flavour': 'default', 'expr': e['expr'],
                      'corpus_data': e['data'] if e['has_data'] else None,
                      'has_data': e['has_data']})
        _state['pool'] = p
    return p


def prepare(params, replay=False):
    core.import_yaql()
    seams.HashSeam.install()        # before any FunctionDefinition is hashed
    seams.HashSeam.reset(None)
    synth.inventory('default')
    synth.collection_targets('default')
    synth.chain_engine('default')
    c09.load_corpus()
    pool()
    return {'statement_pool': len(pool())}


def gen_focused_case(seeds, w, s):
    """Short trace, systematic schedule: two threads, one statement of a
    balanced family each (the same one, or two of the same family), one
    evaluation per thread; single-switch phases swept over the rarely
    executed sites of exactly this trace."""
    fam = w.choice(families())
    texts = [w.choice(fam)]
    if w.random() < 0.4:
        texts.append(w.choice(fam))
    stmts = [{'kind': 'text', 'flavour': 'default', 'expr': t} for t in texts]
    d = c09.gen_doc(w)
    while d['root'] != 'dict':
        d = c09.gen_doc(w)
    docs = [d, json.loads(json.dumps(d))]
    if w.random() < 0.5:
        docs[1]['v']['n'] = (docs[1]['v']['n'] + 1) % 10
        docs[1]['v']['list'] = docs[1]['v']['list'] + [7]
    tasks = [[[0, 0]], [[len(stmts) - 1, 1]]]
    modes = []
    if w.random() < 0.3:
        # the second thread works with an engine derived from the first
        # one's (stricter options), or parses the text itself
        modes.append([len(stmts) - 1, 1, w.choice(['copyq', 'copyq', 'copyl',
                                                    'copy', 'parse'])])
    return {'stmts': stmts, 'docs': docs, 'tasks': tasks,
            'sched': {'policy': 'writes', 'seed': seeds.sub('sched'),
                      'nswitch': 1, 'sweep': 14},
            'via_eval': False, 'cold': w.random() < 0.4, 'shared': 'plain',
            'modes': modes, 'focused': True}


def gen_case(seeds, params, index):
    w = seeds.stream('workload')
    s = seeds.stream('schedule')
    if index % 3 == 1:
        return gen_focused_case(seeds, w, s)
    P = pool()
    nthreads = w.choice([2, 2, 2, 3, 3, 4])
    mix = w.choice(['same', 'same', 'different', 'mixed'])
    eval_flavour = w.random() < 0.14
    prefill = 0
    if eval_flavour and w.random() < 0.6:
        # the host has used yaql.eval for a while: its module-level cache
        # holds that many other expressions already (sizes around the powers
        # of two, where a bounded cache would overflow)
        prefill = (1 << w.choice([4, 5, 6, 7, 7, 8, 9, 10])) - w.choice(
            [0, 1, 1, 2, 2, 3, 4])
        mix = w.choice(['different', 'different', 'mixed'])
    nst = 1 if mix == 'same' else w.choice([2, 3, 4])
    stmts = []
    for _ in range(nst):
        r = w.random()
        if eval_flavour:
            stmts.append({'kind': 'text', 'flavour': 'default',
                          'expr': pick_stateful(w) if w.random() < 0.75
                          else w.choice(BROKEN)})
        elif r < 0.6:
            stmts.append({'kind': 'text', 'flavour': 'default',
                          'expr': pick_stateful(w)})
        elif r < 0.78:
            stmts.append(dict(w.choice(P)))
        else:
            st = c09.gen_stmt(w, 0.0)
            stmts.append(st)
    docs = []
    tasks = []
    same_docs = w.random() < 0.35   # equal documents in all threads
    shared_doc = []
    for t in range(nthreads):
        ops = []
        for _ in range(w.choice([1, 1, 2, 3])):
            si = w.randrange(len(stmts))
            if stmts[si].get('has_data') and w.random() < 0.7:
                docs.append({'root': 'raw', 'v': stmts[si]['corpus_data']})
            else:
                if same_docs and shared_doc:
                    docs.append(json.loads(json.dumps(shared_doc[0])))
                else:
                    docs.append(c09.gen_doc(w))
                    d = docs[-1]
                    if d['root'] == 'dict' and w.random() < 0.3:
                        # longer collections: longer sorts / groupings, more
                        # room for two threads to be inside the same helper
                        d['v']['list'] = [w.randrange(-5, 20) for _ in range(
                            w.randrange(8, 15))]
                        d['v']['recs'] = [
                            {'name': w.choice(['n1', 'n2', 'n3', 'n4']),
                             'v': w.randrange(5), 'tags': [w.randrange(3)]}
                            for _ in range(w.randrange(4, 8))]
                        d['v']['strs'] = [w.choice(['a', 'bb', 'c', 'ab', 'ba'])
                                          for _ in range(w.randrange(4, 8))]
                    shared_doc.append(docs[-1])
                if docs[-1]['root'] == 'dict' and not same_docs:
                    docs[-1]['v']['n'] = (docs[-1]['v']['n'] + t) % 10
            ops.append([si, len(docs) - 1])
        tasks.append(ops)
    pol = s.choice(['random', 'pct', 'pct', 'writes', 'writes'])
    if eval_flavour and s.random() < 0.5:
        pol = 'writes'      # module-level caches: target their read/write sites
    spec = {'policy': pol, 'seed': seeds.sub('sched'),
            'mean': s.choice([3, 30, 300, 3000]),
            'nswitch': s.randrange(1, 6)}
    modes = []
    pair_modes = mix == 'same' and w.random() < 0.3
    for ti_, ops in enumerate(tasks):
        for si, di in ops:
            r = w.random()
            if pair_modes and stmts[si]['kind'] == 'text':
                # the same text under a lax engine in one thread and under a
                # stricter derived engine in the others
                if ti_ > 0:
                    modes.append([si, di, w.choice(['copyl', 'copyq', 'copy'])])
                continue
            if stmts[si]['kind'] == 'text' and r < 0.3:
                modes.append([si, di, w.choice(['parse', 'parse', 'copy', 'yi',
                                                'copyq', 'copyl'])])
    return {'stmts': stmts, 'docs': docs, 'tasks': tasks, 'sched': spec,
            'via_eval': eval_flavour, 'eval_prefill': prefill,
            'cold': w.random() < 0.25,
            'shared': w.choice(['plain', 'plain', 'plain', 'multi', 'linked',
                                'bare']),
            'modes': modes}


# ---------------------------------------------------------------------------

class HostObject:
    """A yaqlized host object shared by all threads."""

    def __init__(self, name, child=None):
        self.name = name
        self.foo = 'FOO-' + name
        self.bar = [1, 2, 3]
        self.items = ['i0', 'i1']
        self.child = child
        self._private = 'secret'

    def upper(self, s):
        return str(s).upper()

    def add(self, a, b):
        return a + b

    def __getitem__(self, i):
        return self.items[i]


class NameIn:
    """Callable whitelist entry with a fixed hash (a lambda would hash by
    address and make the scan order of the whitelist set unrepeatable)."""

    def __init__(self, names, h):
        self.names = names
        self.h = h

    def __call__(self, n):
        return n in self.names

    def __hash__(self):
        return self.h

    def __eq__(self, other):
        return self is other


def make_host_objects():
    import re
    from yaql import yaqlization
    inner = HostObject('inner')
    yaqlization.yaqlize(inner, whitelist=[re.compile('^[a-z]+$')])
    o1 = HostObject('one', inner)
    yaqlization.yaqlize(o1, whitelist=[
        re.compile('^f.*$'), NameIn(('bar', 'name', 'items', 'child'), 12345),
        'upper', re.compile('^add$')], blacklist=['_private'])
    o2 = HostObject('two')
    yaqlization.yaqlize(o2, whitelist=[re.compile('.*o.*'), 'name'],
                        auto_yaqlize_result=True)
    return o1, o2


class World:
    def __init__(self, case, cold=False):
        from yaql.language import expressions as X
        self.case = case
        self.probe_calls = 0
        self._names = None
        if case.get('shared') == 'bare':
            # a chain the host populated by hand: no finalizer anywhere
            root = c09.bare_root().create_child_context() if not cold else \
                self._fresh_bare()
        elif cold:
            # a context chain nobody has evaluated anything in yet: fresh
            # FunctionDefinition clones (first-use / lazy-initialisation
            # races are invisible on a warmed-up chain).  Their simulator
            # hashes restart at a fixed base so that the run replays.
            import yaql
            seams.HashSeam.counter = 1000000
            root = yaql.create_context()
        else:
            root = synth.chain_contexts('default')
        P = root.create_child_context()
        P['yobj'], P['yobj2'] = make_host_objects()
        # the host prepares part of the shared context with yaql itself: the
        # lambdas behind these functions outlive the evaluation that made them
        eng = synth.chain_engine('default')
        if case.get('shared') != 'bare':    # (would need a finalizer first)
            for text in ('def(sq, $ * $)', 'def(pairUp, [$, $ + 1])',
                         'def(addN, $1 + $2)'):
                P = eng(text).evaluate(context=P)

        def probe(x):
            return x

        from yaql.language import specs as _specs, yaqltypes as _T

        @_specs.parameter('arg', _T.AnyOf(_T.Integer(), _T.String(),
                                          _T.Iterable(), nullable=True))
        def kind_of(arg):
            return '%s:%s' % (type(arg).__name__, arg if not hasattr(
                arg, '__iter__') or isinstance(arg, str) else len(list(arg)))

        @_specs.parameter('arg', _T.Chain(_T.String(), _T.NotOfType(int)))
        def chained(arg):
            return 'chained:' + arg

        @_specs.parameter('arg', _T.NotOfType(str, nullable=True))
        def not_str(arg):
            return 'notstr:%r' % (arg,)

        def sub_len(yaql_interface, coll):
            # a host function that evaluates a helper expression itself
            return yaql_interface('$1.len() + $2', coll, 0)

        def sub_sum(yaql_interface, coll):
            return yaql_interface('$.select($ * 2).sum(0)', coll)
        hostlist = [1, 2, [3, 4]]
        self.hostlist = hostlist
        P.register_function(probe, name='probe')
        P.register_function(kind_of, name='kindOf')
        P.register_function(chained, name='chained')
        P.register_function(not_str, name='notStr')
        P.register_function(sub_len, name='subLen')
        P.register_function(sub_sum, name='subSum')
        P.register_function(lambda: hostlist, name='hostlist')
        P['hostvar'] = [1, 2, [3]]
        P['hostdict'] = {'k': [1], 'm': {'z': 1}}
        from yaql.language import utils as _u
        P['frozen'] = _u.FrozenDict({'a': 1, 'b': 2})
        P['frozen2'] = _u.FrozenDict({'b': 2, 'a': 1})
        for k, v in synth.std_vars().items():
            P[k] = v
        shared = case.get('shared', 'plain')
        if shared == 'multi':
            # the host composes its prepared layer with a second one
            from yaql.language import contexts
            P2 = P.parent.create_child_context()
            P2['extra'] = [7, 8]
            P2.register_function(lambda x: x, name='ident')
            P = contexts.MultiContext([P, P2])
        elif shared == 'linked':
            from yaql.language import contexts
            P = contexts.LinkedContext(root, P)
        self.P = P
        self.engine = synth.chain_engine('default')
        self.stmts = []
        for s in case['stmts']:
            try:
                if s['kind'] == 'synth':
                    expr = synth.build_call('default', s['call'])
                else:
                    expr = self.engine(s['expr']).expression
                self.stmts.append(X.Statement(expr, self.engine))
            except Exception:
                self.stmts.append(None)

    @staticmethod
    def _fresh_bare():
        from yaql.language import contexts, conventions
        from yaql.standard_library import (
            boolean, branching, collections, common, math, queries, regex,
            strings, system)
        seams.HashSeam.counter = 1000000
        root = contexts.Context(convention=conventions.CamelCaseConvention())
        system.register_fallbacks(root)
        ctx = root.create_child_context()
        system.register(ctx, False)
        for m_ in (common, boolean, strings, math):
            m_.register(ctx)
        collections.register(ctx, False)
        queries.register(ctx, True)
        regex.register(ctx)
        branching.register(ctx)
        return ctx

    def doc(self, di, registry=None):
        d = self.case['docs'][di]
        if d['root'] == 'raw':
            return json.loads(json.dumps(d['v']))
        v = c09.build_doc(d)
        if isinstance(v, dict):
            src = seams.SimSource('src%d' % di, lambda i: i, length=12,
                                  budget=400)
            v['src'] = src
        return v

    def chain(self):
        out = []
        c = self.P
        while c is not None:
            out.append(c)
            c = c.parent
        return out

    def snapshot(self):
        """Public-interface snapshot of the shared chain."""
        if self._names is None:
            self._names = synth.known_function_names(self.P)
        snap = []
        for c in self.chain():
            snap.append(synth.public_snapshot(
                c, self._names, lambda v: core.jdump(ser.ser_value(v))))
        return snap


def write_lines():
    w = _state.get('write_lines')
    if w is None:
        w = _state['write_lines'] = sched.find_write_lines(
            os.path.join(core.repo_root(), 'yaql'))
    return w


def outcome_of(fn):
    try:
        r = c09.materialise(fn())
        return ['ok', c09.scrub(ser.ser_value(r))]
    except core.SimAbort:
        raise
    except Exception as e:
        return ['raised', type(e).__name__, c09.scrub(str(e))[:200]]


def run_world(case, stats, record=None):
    """-> (violations, info).  Executes baseline + concurrent phase."""
    import yaql
    cold = bool(case.get('cold'))
    world = World(case)             # warm twin: baseline + measurement
    cworld = World(case, cold=True) if cold else world
    via_eval = case.get('via_eval')
    saved = None
    # the module-level caches of yaql.eval are an implementation detail: use
    # them (shared host context, known engine) only when they are there
    eval_globals = via_eval and all(hasattr(yaql, n) for n in (
        '_cached_engine', '_cached_expressions', '_default_context'))
    if eval_globals:
        saved = (yaql._cached_engine, yaql._cached_expressions,
                 yaql._default_context)
        yaql._cached_engine = world.engine
        yaql._cached_expressions = {}
        yaql._default_context = world.P
        for i in range(case.get('eval_prefill') or 0):
            yaql.eval('%d' % (100000 + i))
        prefilled = yaql._cached_expressions

    modes = {(a, b): m_ for a, b, m_ in case.get('modes', [])}

    def evaluate(si, di, w=None):
        w = w or world
        st = w.stmts[si]
        data = w.doc(di)
        if via_eval:
            # texts that do not parse go through yaql.eval as well (its error
            # path touches the module-level caches)
            return yaql.eval(case['stmts'][si]['expr'], data)
        mode = modes.get((si, di))
        text = case['stmts'][si].get('expr')
        if mode == 'parse' and text is not None:
            # the worker thread parses the text itself (engine shared by all
            # threads), then evaluates
            return w.engine(text).evaluate(
                data=data, context=w.P.create_child_context())
        if mode == 'copy' and text is not None:
            return w.engine(text, {'yaql.limitIterators': 1000}).evaluate(
                data=data, context=w.P.create_child_context())
        if mode in ('copyq', 'copyl') and text is not None:
            # engines derived with stricter options, used side by side with
            # the lax one
            opts = {'yaql.memoryQuota': 120} if mode == 'copyq' else \
                {'yaql.limitIterators': 2}
            return w.engine(text, opts).evaluate(
                data=data, context=w.P.create_child_context())
        if mode == 'yi' and text is not None:
            from yaql import yaql_interface
            return yaql_interface.YaqlInterface(w.P, w.engine)(
                text, data, 7, who='x')
        if st is None:
            raise ValueError('unparsable statement')
        return st.evaluate(data=data, context=w.P.create_child_context())

    viols = []
    info = {}
    gc_was = gc.isenabled()
    gc.collect()
    gc.disable()
    try:
        snap0 = world.snapshot()
        # ---- baseline: every evaluation alone, sequentially ----
        base = []
        unstable = set()
        prefix = (os.path.join(core.repo_root(), 'yaql') + os.sep,)
        wl = write_lines()
        counter = sched.LineCounter(prefix, wl)
        need_counts = 'schedule' not in case and (case.get('sched') or {}).get(
            'policy') in ('pct', 'writes')
        # Every evaluation ALONE: in its own forked copy of this process, so
        # that no other evaluation of this run (and nothing it may leave
        # behind in module- or object-level caches) can influence it.  The
        # child evaluates twice to tell address-dependent outcomes apart.
        changed_alone = False
        init_sites = {}
        for t, ops in enumerate(case['tasks']):
            row = []
            for j, (si, di) in enumerate(ops):
                def alone(si=si, di=di):
                    c = sched.LineCounter(prefix, wl)
                    cw = sched.LineCounter(prefix, wl)
                    if need_counts:
                        with c:
                            o = outcome_of(lambda: evaluate(si, di))
                    else:
                        o = outcome_of(lambda: evaluate(si, di))
                    ch = world.snapshot() != snap0
                    if need_counts and case.get('focused'):
                        with cw:
                            o2 = outcome_of(lambda: evaluate(si, di))
                        # executed by the first evaluation of this process
                        # and no more (or less often) by the second: code
                        # that fills something in on first use
                        init = {k_: v_ for k_, v_ in c.sites.items()
                                if cw.sites.get(k_, 0) < v_}
                    else:
                        o2 = outcome_of(lambda: evaluate(si, di))
                        init = {}
                    return o, o2, c.lines, c.wpoints, c.sites, ch, init
                o, o2, nl, nw, sites, ch, init = core.fork_call(alone)
                if o != o2:
                    unstable.add((t, j))
                counter.lines += nl
                counter.wpoints += nw
                for k_, v_ in sites.items():
                    counter.sites[k_] = counter.sites.get(k_, 0) + v_
                for k_, v_ in init.items():
                    init_sites[k_] = max(init_sites.get(k_, 0), v_)
                changed_alone = changed_alone or ch
                row.append(o)
            base.append(row)
        if changed_alone:
            viols.append({'key': 'C18:shared-context-changed-by-sequential-'
                                 'evaluation',
                          'clause': 'the shared context is unchanged '
                                    'afterwards (already when run alone)',
                          'detail': {'stmts': [c09.stmt_text(s)
                                               for s in case['stmts']]}})
            return viols, info
        # ---- concurrent phase ----
        if eval_globals:
            # same module-level state as before the baseline
            import copy
            yaql._cached_engine = world.engine
            yaql._cached_expressions = copy.copy(prefilled)
            yaql._default_context = world.P
        if cold:
            snap0 = cworld.snapshot()
            if eval_globals:
                yaql._default_context = cworld.P
        else:
            # fresh host objects for the concurrent phase: state that yaql
            # might park ON a host object during its first accesses must not
            # be pre-populated by the sequential baseline
            world.P['yobj'], world.P['yobj2'] = make_host_objects()
            snap0 = world.snapshot()
        active = [0] * len(case['tasks'])
        probe = {'both': 0, 'sites': []}

        def on_switch(frm, to, baton):
            if sum(active) >= 2:
                probe['both'] += 1

        spec = dict(case.get('sched') or {})
        if 'schedule' not in case and spec:
            # size the schedule from the measured sequential run
            import random
            r = random.Random(spec.get('seed', 0))
            n = spec.get('nswitch', 3)
            if spec.get('policy') == 'pct':
                spec['switch_at'] = sorted(
                    r.randrange(1, max(2, counter.lines)) for _ in range(n))
            elif spec.get('policy') == 'writes':
                # site-uniform: a rarely executed store (a module-level
                # cache) is as likely to be chosen as a hot one
                sites = sorted(counter.sites)
                weights = [(8.0 if x in sched.GLOBAL_SITES else 1.0) /
                           counter.sites[x] for x in sites]
                tg = []
                for i_ in range(n):
                    if not sites:
                        break
                    if i_ % 2 == 0:
                        # novelty first: the executed site this worker has
                        # targeted least so far (rarely executed code - a
                        # cache filled once, a lazily built table - gets its
                        # turn as soon as a run reaches it)
                        st_ = min(sites, key=lambda x: (
                            _site_picks.get(x, 0),
                            0 if x in sched.GLOBAL_SITES else 1,
                            counter.sites[x], x))
                    else:
                        st_ = r.choices(sites, weights)[0]
                    _site_picks[st_] = _site_picks.get(st_, 0) + 1
                    tg.append([st_[0], st_[1],
                               r.randrange(1, counter.sites[st_] + 1)])
                spec['switch_at_w'] = tg
            if spec.get('switch_at_w_override'):
                spec['switch_at_w'] = spec['switch_at_w_override']
        info['measured'] = [counter.lines, counter.wpoints]
        gen_mode = 'schedule' not in case

        def concurrent(spec=spec, schedule=case.get('schedule')):
            # Runs in a forked copy of this process: the worker itself never
            # evaluates anything, so every run starts from the same process
            # state (module-level caches cold) and replays independently of
            # the runs before it.
            baton = sched.Baton(
                sched_spec=spec, schedule=schedule,
                step_cap=STEP_CAP, on_switch=on_switch, write_lines=wl,
                tracer_files=prefix)

            def mk(t, ops):
                def fn():
                    outs = []
                    for si, di in ops:
                        active[t] = 1
                        try:
                            outs.append(outcome_of(
                                lambda: evaluate(si, di, cworld)))
                        finally:
                            active[t] = 0
                    return outs
                return fn
            for t, ops in enumerate(case['tasks']):
                baton.add(mk(t, ops))
            res = baton.run()
            return {'results': res, 'aborted': baton.aborted,
                    'recorded': baton.recorded, 'steps': baton.total_steps,
                    'switches': baton.switches, 'both': probe['both'],
                    'changed': cworld.snapshot() != snap0}
        cres = core.fork_call(concurrent, timeout=600)
        results = cres['results']
        if cres['aborted']:
            info['aborted'] = cres['aborted']
            stats.inc('status.step_cap')
            return viols, info
        if 'schedule' not in case:
            case['schedule'] = cres['recorded']
        info.update(steps=cres['steps'], switches=cres['switches'],
                    both=cres['both'], recorded=cres['recorded'])
        def alone_can_give(si, di, want):
            """Does the evaluation, run ALONE, also produce `want` when the
            heap is laid out differently?  (A result set that holds an
            identity-hashed object is walked in address order: which of two
            failing members the finalizer meets first, or the order of a set
            turned into a list, is not a function of the inputs.)"""
            for i in range(8):
                def one(i=i):
                    junk = [bytearray(24 + 8 * (i % 7))
                            for _ in range(i * 3 + 1)]
                    junk2 = [object() for _ in range(997 * (i % 3))]
                    o = outcome_of(lambda: evaluate(si, di))
                    del junk, junk2
                    return o
                if core.fork_call(one) == want:
                    return True
            return False

        def compare(cres):
            out = []
            results = cres['results']
            for t, ops in enumerate(case['tasks']):
                for j, (si, di) in enumerate(ops):
                    if results[t] is None or results[t][j] != base[t][j]:
                        if (t, j) in unstable:
                            stats.inc('nd.unstable_alone_skipped')
                            continue
                        if results[t] is not None and \
                                base[t][j][0] == 'raised' and \
                                results[t][j][0] == 'raised' and \
                                base[t][j][1] != results[t][j][1]:
                            # two different errors: which of two failing
                            # members of a result set the finalizer meets
                            # first depends on the addresses of identity-
                            # hashed members, also when run alone - never a
                            # verdict (as in C09)
                            stats.inc('nd.different_errors_skipped')
                            continue
                        if results[t] is not None and alone_can_give(
                                si, di, results[t][j]):
                            unstable.add((t, j))
                            stats.inc('nd.alone_outcome_varies_skipped')
                            continue
                        out.append({
                            'key': 'C18:result-differs-from-run-alone',
                            'clause': 'every evaluation returns exactly what '
                                      'it returns when run alone',
                            'detail': {'thread': t, 'op': j, 'statement':
                                       c09.stmt_text(case['stmts'][si]),
                                       'alone': base[t][j],
                                       'concurrent': results[t][j]
                                       if results[t] else None,
                                       'threads': len(case['tasks']),
                                       'cold_context': cold,
                                       'via_eval': bool(via_eval)}})
                        return out
            if cres['changed']:
                out.append({'key': 'C18:shared-context-changed',
                            'clause': 'the shared context is unchanged '
                                      'afterwards',
                            'detail': {'stmts': [c09.stmt_text(s)
                                                 for s in case['stmts']],
                                       'via_eval': bool(via_eval)}})
            return out
        viols.extend(compare(cres))
        # Site sweep ("systematically for short traces"): for runs under the
        # write-point policy, a few more concurrent phases with ONE switch
        # each, placed right after a rarely executed store / global access
        # this worker has targeted least so far.
        if not viols and gen_mode and spec.get('policy') == 'pct' and \
                counter.lines > 0:
            # position sweep: more single-switch schedules over the same
            # world and baselines; short traces get more of them
            import random
            r3 = random.Random(spec.get('seed', 0) + 2)
            for _ in range(max(2, min(10, 40000 // max(1, counter.lines)))):
                spec3 = {'policy': 'pct', 'seed': r3.randrange(1 << 30),
                         'switch_at': [r3.randrange(1, counter.lines + 1)]}
                c3 = core.fork_call(lambda: concurrent(spec3, None),
                                    timeout=600)
                stats.inc('sweep_phases')
                info['steps'] = info.get('steps', 0) + c3['steps']
                info['switches'] = info.get('switches', 0) + c3['switches']
                info['both'] = info.get('both', 0) + c3['both']
                if c3['aborted']:
                    continue
                v3 = compare(c3)
                if v3:
                    viols.extend(v3)
                    case['schedule'] = c3['recorded']
                    info['recorded'] = c3['recorded']
                    break
        if not viols and gen_mode and spec.get('policy') == 'writes':
            nthreads = len(case['tasks'])
            import random
            r2 = random.Random(spec.get('seed', 0) + 1)
            rare = sorted(x for x in counter.sites
                          if counter.sites[x] <= 4 * nthreads)
            r2.shuffle(rare)
            rare.sort(key=lambda x: (_site_picks.get(x, 0),
                                     0 if x in sched.GLOBAL_SITES else 1))
            picks = [(x, counter.sites[x])
                     for x in rare[:spec.get('sweep', SWEEP)]]
            # first-use sites that are not rare (a table built once per
            # function definition, say): a few of them as well, at a random
            # one of the occurrences of the first evaluation
            often = sorted(x for x in init_sites
                           if counter.sites.get(x, 0) > 4 * nthreads)
            r2.shuffle(often)
            often.sort(key=lambda x: _site_picks.get(('init',) + x, 0))
            for x in often[:max(2, spec.get('sweep', SWEEP) // 3)]:
                _site_picks[('init',) + x] = \
                    _site_picks.get(('init',) + x, 0) + 1
                picks.append((x, init_sites[x]))
            for site, occ in picks:
                _site_picks[site] = _site_picks.get(site, 0) + 1
                spec2 = {'policy': 'writes', 'seed': r2.randrange(1 << 30),
                         'switch_at_w': [[site[0], site[1], r2.randrange(
                             1, occ + 1)]]}
                c2 = core.fork_call(lambda: concurrent(spec2, None),
                                    timeout=600)
                stats.inc('sweep_phases')
                info['steps'] = info.get('steps', 0) + c2['steps']
                info['switches'] = info.get('switches', 0) + c2['switches']
                info['both'] = info.get('both', 0) + c2['both']
                if c2['aborted']:
                    continue
                v2 = compare(c2)
                if v2:
                    viols.extend(v2)
                    case['schedule'] = c2['recorded']
                    info['recorded'] = c2['recorded']
                    break
    finally:
        if gc_was:
            gc.enable()
        if saved:
            (yaql._cached_engine, yaql._cached_expressions,
             yaql._default_context) = saved
    return viols, info


def execute(case, stats):
    seams.HashSeam.install()
    sched.install_coop_locks()
    undo_it = seams.patch_itertools(2000)
    undo_r = seams.patch_random(777)
    try:
        viols, info = run_world(case, stats)
        if viols and viols[0]['key'] == 'C18:result-differs-from-run-alone':
            # confirm: the same schedule must reproduce the same mismatch
            # (address-dependent outcomes do not)
            again, _ = run_world(dict(case), core.Stats())
            same = [v for v in again if v['key'] == viols[0]['key'] and
                    v['detail']['thread'] == viols[0]['detail']['thread'] and
                    v['detail']['op'] == viols[0]['detail']['op']]
            if not same:
                stats.inc('nd.unconfirmed_mismatch_skipped')
                viols = []
    finally:
        undo_it()
        undo_r()
    stats.inc('evaluations_concurrent', sum(len(o) for o in case['tasks']))
    stats.inc('steps.line_and_pull_events', info.get('steps', 0))
    stats.inc('fault.context_switches', info.get('switches', 0))
    stats.inc('probe.switch_while_two_evaluations_in_flight',
              info.get('both', 0))
    stats.inc('threads.%d' % len(case['tasks']))
    stats.inc('policy.' + (case.get('sched') or {}).get('policy', 'replay'))
    stats.inc('steps.sequential_baseline_lines', info.get('measured', [0, 0])[0])
    stats.inc('steps.sequential_baseline_write_points',
              info.get('measured', [0, 0])[1])
    if case.get('via_eval'):
        stats.inc('flavour.yaql_eval')
        if case.get('eval_prefill'):
            stats.inc('flavour.yaql_eval_cache_prefilled')
    if case.get('cold'):
        stats.inc('flavour.cold_context_chain')
    if case.get('focused'):
        stats.inc('flavour.focused_short_trace')
    stats.inc('flavour.shared_' + case.get('shared', 'plain'))
    for m_ in case.get('modes', []):
        stats.inc('flavour.op_' + m_[2])
    sig = core.h64(core.jdump(case['stmts']), core.jdump(case['tasks']),
                   core.jdump(info.get('recorded', [])))
    stats.add('interleavings', sig)
    if info.get('both', 0) > 0:
        stats.add('nontrivial', sig)
        stats.sample('sample', {
            'stmts': [c09.stmt_text(s) for s in case['stmts']],
            'tasks': case['tasks'], 'switches': info.get('switches'),
            'schedule_head': info.get('recorded', [])[:12]}, 2)
    return viols


# ---------------------------------------------------------------------------

def shrink_candidates(case):
    def mk(**kw):
        c = {k: v for k, v in case.items() if k not in ('shrink', 'sched')}
        c.update(kw)
        return c
    tasks = case['tasks']
    schedule = case.get('schedule', [])
    if len(tasks) > 2:
        for t in range(len(tasks)):
            nt = tasks[:t] + tasks[t + 1:]
            ns = [[x - (1 if x > t else 0), q] for x, q in schedule if x != t]
            yield mk(tasks=nt, schedule=ns)
    for t in range(len(tasks)):
        if len(tasks[t]) > 1:
            for j in range(len(tasks[t])):
                nt = [list(o) for o in tasks]
                nt[t] = nt[t][:j] + nt[t][j + 1:]
                yield mk(tasks=nt)
    # fewer switches: merge segments
    if len(schedule) > 2:
        step = len(schedule) // 2
        while step >= 1:
            i = 0
            while i < len(schedule):
                yield mk(schedule=schedule[:i] + schedule[i + step:])
                i += step
            step //= 2
    for i in range(len(schedule)):
        yield mk(schedule=schedule[:i + 1])
    if case.get('via_eval'):
        yield mk(via_eval=False)
    if case.get('cold'):
        yield mk(cold=False)
    if case.get('shared', 'plain') != 'plain':
        yield mk(shared='plain')
    if case.get('modes'):
        yield mk(modes=[])


def match_known(case, viol, entry):
    return False


def coverage(stats, params):
    return {
        'evaluations': stats.n('runs'),
        'distinct_nontrivial': stats.distinct('nontrivial'),
        'rule': 'a case = (1-4 statements from a pool of hand-written '
                'stateful-lazy pipelines, C09 statements, harvested test '
                'expressions and introspective library calls; per-thread '
                'document variants; 2-4 threads x 1-3 evaluations; executed '
                'schedule at line granularity); distinct = distinct hash of '
                '(statements, assignment, executed schedule); non-trivial = '
                'at least one context switch happened while two or more '
                'evaluations were in progress',
        'samples': stats.samples.get('sample', []) or [{'note': 'none'}],
        'distinct_interleavings': stats.distinct('interleavings'),
        'concurrent_evaluations': stats.n('evaluations_concurrent'),
        'simulated_time_steps': stats.counters('steps.'),
        'faults_fired': stats.counters('fault.'),
        'probes': stats.counters('probe.'),
        'threads': stats.counters('threads.'),
        'schedule_policies': stats.counters('policy.'),
        'site_sweep_phases': stats.n('sweep_phases'),
        'static_write_lines': len(write_lines()),
        'flavours': stats.counters('flavour.'),
        'status': stats.counters('status.'),
        'not_deterministic_skips': stats.counters('nd.'),
        'real_components': ['all of yaql evaluation (expressions, runner, '
                            'specs, contexts, yaqltypes, standard library), '
                            'yaql.eval module-level caches'],
        'stubbed_components': ['thread scheduler (baton over real threads, '
                               'sys.settrace line events)', 'host streams',
                               'itertools endless generators (budgeted)',
                               'random (seeded)'],
        'exhaustive': False,
    }


def probe_warnings(stats):
    if stats.n('probe.switch_while_two_evaluations_in_flight') == 0:
        return ['probe.switch_while_two_evaluations_in_flight']
    return []
